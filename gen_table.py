#!/usr/bin/env python3
"""Prints the DESIGN.md section 0.4 table from checks/*.json, evidence/*.json (last quick run) and thorough_sweep.log."""
import json, re, glob, os
here = os.path.dirname(os.path.abspath(__file__))
thor = {}
for l in open(os.path.join(here, "thorough_sweep.log")):
    m = re.match(r"(C\d\d) rc=(\d+) (\d+)s .*paths=(\d+)", l)
    if m:
        thor[m.group(1)] = (m.group(3), m.group(4))
def b(l):
    return ",".join(f"{k}={v}" for k, v in l.items())
print("| id | obligations [quick bound / thorough bound] | quick tier, 16 cores | thorough tier (thorough_sweep.log) |\n|---|---|---|---|")
for p in sorted(glob.glob(os.path.join(here, "checks", "C*.json"))):
    d = json.load(open(p)); pid = d.get("property") or os.path.basename(p)[:3]
    obs = []
    for o in d["obligations"]:
        q = (o.get("quick", {}).get("ladder") or [{}])[0]; t = (o.get("thorough", {}).get("ladder") or [{}])[0]  # first rung = the registered bound; later rungs are fall-backs
        n = o["id"].split(".")[1]
        obs.append(n if not q and not t else f"{n} [{b(q)} / {b(t)}]")
    ev = json.load(open(os.path.join(here, "evidence", pid + ".json")))
    c = ev.get("coverage", {})
    q = f"{round(ev.get('wall_s', 0))} s, {c.get('states')} paths, {c.get('solver_queries', c.get('queries', ''))} queries"
    t = thor.get(pid); ts = f"{t[0]} s, {t[1]} paths" if t else ""
    print(f"| {pid} | {'; '.join(obs)} | {q} | {ts} |")
