#!/usr/bin/env python3
"""Translator validation of the symbolic executor: every template literal found in the repository's own
*_test.go files is pushed through the harness entry VH_Selftest natively (go test -overlay) and through
symx's concrete-vector mode; the observations (parse error?, render error?, output bytes) must agree.
Exit 0 always; prints the agreement count and the first disagreements."""
import re, glob, os, sys, json
sys.path.insert(0, os.path.dirname(os.path.abspath(__file__)))
import check
check.build_engine()
lits = []
for f in sorted(glob.glob(os.path.join(check.REPO, "*_test.go"))):
    if os.path.basename(f).startswith("zz_"):
        continue
    txt = open(f, errors="replace").read()
    for m in re.finditer(r'(?:source|template|Source|Template|tpl|src)\s*[:=]+\s*"((?:\\.|[^"\\])*)"', txt):
        try:
            s = bytes(m.group(1), "utf-8").decode("unicode_escape").encode("latin-1", "replace")
        except Exception:
            continue
        if 0 < len(s) < 1500:
            lits.append(s)
    for m in re.finditer(r'(?:source|template|Source|Template)\s*[:=]+\s*`([^`]*)`', txt):
        s = m.group(1).encode("utf-8")
        if 0 < len(s) < 1500:
            lits.append(s)
lits = sorted(set(lits))
vectors = [[len(s)] + list(s) for s in lits]
nat, log, _ = check.native_run("VH_Selftest", {}, vectors, set(), timeout_s=120)
eng = check.engine_concrete("VH_Selftest", {}, vectors, {})
agree, dis, skipped = 0, [], 0
for s, n, e in zip(lits, nat, eng):
    if n is None or e is None or "END-unsupported" in (e or "") or "END-internal" in (e or ""):
        skipped += 1
        if e and ("END-unsupported" in e or "END-internal" in e):
            dis.append(("unsupported", s, n, e))
        continue
    if n == e:
        agree += 1
    else:
        dis.append(("differ", s, n, e))
print("templates=%d agree=%d differ=%d unsupported_or_missing=%d" % (len(lits), agree, sum(1 for d in dis if d[0] == "differ"), skipped))
for kind, s, n, e in dis[:15]:
    print(kind, repr(s)[:120]); print("   native:", (n or "")[:160]); print("   engine:", (e or "")[:160])
