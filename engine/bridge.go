package main

import (
	"go/types"
	"math"
	"strconv"
)

func concStr(v Value) string {
	s := v.(Str)
	if !s.isC() {
		panic(unsupported("symbolic string reaches native bridge"))
	}
	return s.S
}

// concStrFork makes a string concrete by forking over the feasible values of its symbolic bytes.
// If charset != "" the bytes are first split on "all inside charset"; outside, ok=false is returned
// with the string still symbolic (callers return their error result).
func (e *Engine) concStrFork(v Value, charset string) (string, bool) {
	s := v.(Str)
	if s.isC() {
		return s.S, true
	}
	if charset != "" {
		all := tTrue
		for i := 0; i < s.Len(); i++ {
			if b := s.byteAt(i); b.T != nil {
				all = mkAnd(all, inSet(b.T, charset))
			}
		}
		if !e.Branch(all) {
			return "", false
		}
	}
	bs := make([]byte, s.Len())
	for i := range bs {
		bs[i] = byte(e.Concretize(s.byteAt(i)))
	}
	return string(bs), true
}

const floatChars = "0123456789+-.eExXpP_infINFatyATY"

func concI(e *Engine, v Value) int64 {
	i := v.(Int)
	if i.T != nil {
		panic(unsupported("symbolic int reaches native bridge"))
	}
	return signExt(i.V, i.W)
}

func (e *Engine) mkError(msg string) Value {
	if errorStringType == nil {
		errorStringType = types.NewPointer(e.prog.ImportedPackage("errors").Type("errorString").Type())
	}
	cell := new(Value)
	*cell = Struct{Str{S: msg}}
	return Iface{T: errorStringType, V: cell}
}

func init() {
	f1 := func(f func(float64) float64) intrinsic {
		return func(e *Engine, a []Value) Value { return Float{f(a[0].(Float).V)} }
	}
	f2 := func(f func(float64, float64) float64) intrinsic {
		return func(e *Engine, a []Value) Value { return Float{f(a[0].(Float).V, a[1].(Float).V)} }
	}
	intrinsics["math.Abs"] = f1(math.Abs)
	intrinsics["math.Floor"] = f1(math.Floor)
	intrinsics["math.Ceil"] = f1(math.Ceil)
	intrinsics["math.Round"] = f1(math.Round)
	intrinsics["math.Trunc"] = f1(math.Trunc)
	intrinsics["math.Pow"] = f2(math.Pow)
	intrinsics["math.Mod"] = f2(math.Mod)
	intrinsics["math.Max"] = f2(math.Max)
	intrinsics["math.Min"] = f2(math.Min)
	intrinsics["math.Sqrt"] = f1(math.Sqrt)
	intrinsics["math.Log10"] = f1(math.Log10)
	intrinsics["math.Log"] = f1(math.Log)
	intrinsics["math.Exp"] = f1(math.Exp)
	intrinsics["math.Copysign"] = f2(math.Copysign)
	intrinsics["math.Remainder"] = f2(math.Remainder)
	intrinsics["math.Hypot"] = f2(math.Hypot)
	intrinsics["math.Signbit"] = func(e *Engine, a []Value) Value { return Bool{V: math.Signbit(a[0].(Float).V)} }
	intrinsics["math.Float64bits"] = func(e *Engine, a []Value) Value { return mkInt(64, math.Float64bits(a[0].(Float).V)) }
	intrinsics["math.Float64frombits"] = func(e *Engine, a []Value) Value { return Float{math.Float64frombits(a[0].(Int).V)} }
	intrinsics["math.IsNaN"] = func(e *Engine, a []Value) Value { return Bool{V: math.IsNaN(a[0].(Float).V)} }
	intrinsics["math.IsInf"] = func(e *Engine, a []Value) Value {
		return Bool{V: math.IsInf(a[0].(Float).V, int(concI(e, a[1])))}
	}
	intrinsics["strconv.FormatFloat"] = func(e *Engine, a []Value) Value {
		return Str{S: strconv.FormatFloat(a[0].(Float).V, byte(concI(e, a[1])), int(concI(e, a[2])), int(concI(e, a[3])))}
	}
	intrinsics["strconv.ParseFloat"] = func(e *Engine, a []Value) Value {
		str, ok := e.concStrFork(a[0], floatChars)
		if !ok {
			return Tuple{Float{0}, e.mkError("strconv.ParseFloat: parsing <symbolic>: invalid syntax")}
		}
		f, err := strconv.ParseFloat(str, int(concI(e, a[1])))
		if err != nil {
			return Tuple{Float{f}, e.mkError(err.Error())}
		}
		return Tuple{Float{f}, Iface{}}
	}
	intrinsics["strconv.Itoa"] = func(e *Engine, a []Value) Value {
		if i := a[0].(Int); i.T != nil {
			return e.formatIntSym(i)
		}
		return Str{S: strconv.Itoa(int(concI(e, a[0])))}
	}
	intrinsics["strconv.FormatInt"] = func(e *Engine, a []Value) Value {
		if i := a[0].(Int); i.T != nil && concI(e, a[1]) == 10 {
			return e.formatIntSym(i)
		}
		return Str{S: strconv.FormatInt(concI(e, a[0]), int(concI(e, a[1])))}
	}
	intrinsics["strconv.FormatBool"] = func(e *Engine, a []Value) Value {
		b := a[0].(Bool)
		if b.T != nil {
			if e.Branch(b.T) {
				return Str{S: "true"}
			}
			return Str{S: "false"}
		}
		return Str{S: strconv.FormatBool(b.V)}
	}
	intrinsics["strconv.Quote"] = func(e *Engine, a []Value) Value { return Str{S: strconv.Quote(concStr(a[0]))} }
}

// formatIntSym: decimal formatting of a symbolic signed 64-bit integer. The sign and the number of
// digits are decided by the solver (forks); the digits themselves are terms.
func (e *Engine) formatIntSym(i Int) Value {
	t := i.T
	if i.W < 64 {
		t = mkSext(64, t)
	}
	neg := e.Branch(mk("bvslt", 0, t, bvConst(64, 0)))
	abs := t
	if neg {
		abs = mk("bvneg", 64, t) // MinInt64 maps to itself: treated as unsigned below, which is correct
	}
	nd := 1
	p := uint64(10)
	for nd < 20 {
		if e.Branch(mk("bvult", 0, abs, bvConst(64, p))) {
			break
		}
		nd++
		if nd == 20 {
			break
		}
		p *= 10
	}
	bs := make([]Int, 0, nd+1)
	if neg {
		bs = append(bs, mkInt(8, '-'))
	}
	// abs < 10^nd on this path: do the digit arithmetic in the narrowest sufficient width
	w := 64
	switch {
	case nd <= 2:
		w = 8
	case nd <= 4:
		w = 16
	case nd <= 9:
		w = 32
	}
	na := abs
	if w < 64 {
		na = mkExtract(w-1, 0, abs)
	}
	div := uint64(1)
	for k := 1; k < nd; k++ {
		div *= 10
	}
	for k := 0; k < nd; k++ {
		q := na
		if div > 1 {
			q = mk("bvudiv", w, na, bvConst(w, div))
		}
		d := mk("bvurem", w, q, bvConst(w, 10))
		bs = append(bs, fromTermI(mk("bvadd", 8, mkExtract(7, 0, d), bvConst(8, '0'))))
		div /= 10
	}
	return strFromBytes(bs)
}
