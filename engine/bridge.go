package main

import (
	"go/types"
	"math"
	"strconv"
)

func concStr(v Value) string {
	s := v.(Str)
	if !s.isC() {
		panic(unsupported("symbolic string reaches native bridge"))
	}
	return s.S
}
func concI(e *Engine, v Value) int64 {
	i := v.(Int)
	if i.T != nil {
		panic(unsupported("symbolic int reaches native bridge"))
	}
	return signExt(i.V, i.W)
}

func (e *Engine) mkError(msg string) Value {
	if errorStringType == nil {
		errorStringType = types.NewPointer(e.prog.ImportedPackage("errors").Type("errorString").Type())
	}
	cell := new(Value)
	*cell = Struct{Str{S: msg}}
	return Iface{T: errorStringType, V: cell}
}

func init() {
	f1 := func(f func(float64) float64) intrinsic {
		return func(e *Engine, a []Value) Value { return Float{f(a[0].(Float).V)} }
	}
	f2 := func(f func(float64, float64) float64) intrinsic {
		return func(e *Engine, a []Value) Value { return Float{f(a[0].(Float).V, a[1].(Float).V)} }
	}
	intrinsics["math.Abs"] = f1(math.Abs)
	intrinsics["math.Floor"] = f1(math.Floor)
	intrinsics["math.Ceil"] = f1(math.Ceil)
	intrinsics["math.Round"] = f1(math.Round)
	intrinsics["math.Trunc"] = f1(math.Trunc)
	intrinsics["math.Pow"] = f2(math.Pow)
	intrinsics["math.Mod"] = f2(math.Mod)
	intrinsics["math.Float64bits"] = func(e *Engine, a []Value) Value { return mkInt(64, math.Float64bits(a[0].(Float).V)) }
	intrinsics["math.Float64frombits"] = func(e *Engine, a []Value) Value { return Float{math.Float64frombits(a[0].(Int).V)} }
	intrinsics["math.IsNaN"] = func(e *Engine, a []Value) Value { return Bool{V: math.IsNaN(a[0].(Float).V)} }
	intrinsics["math.IsInf"] = func(e *Engine, a []Value) Value {
		return Bool{V: math.IsInf(a[0].(Float).V, int(concI(e, a[1])))}
	}
	intrinsics["strconv.FormatFloat"] = func(e *Engine, a []Value) Value {
		return Str{S: strconv.FormatFloat(a[0].(Float).V, byte(concI(e, a[1])), int(concI(e, a[2])), int(concI(e, a[3])))}
	}
	intrinsics["strconv.ParseFloat"] = func(e *Engine, a []Value) Value {
		f, err := strconv.ParseFloat(concStr(a[0]), int(concI(e, a[1])))
		if err != nil {
			return Tuple{Float{f}, e.mkError(err.Error())}
		}
		return Tuple{Float{f}, Iface{}}
	}
	intrinsics["strconv.Atoi"] = func(e *Engine, a []Value) Value {
		i, err := strconv.Atoi(concStr(a[0]))
		if err != nil {
			return Tuple{mkInt(64, uint64(i)), e.mkError(err.Error())}
		}
		return Tuple{mkInt(64, uint64(i)), Iface{}}
	}
	intrinsics["strconv.Itoa"] = func(e *Engine, a []Value) Value { return Str{S: strconv.Itoa(int(concI(e, a[0])))} }
	intrinsics["strconv.FormatInt"] = func(e *Engine, a []Value) Value {
		return Str{S: strconv.FormatInt(concI(e, a[0]), int(concI(e, a[1])))}
	}
	intrinsics["strconv.FormatBool"] = func(e *Engine, a []Value) Value {
		b := a[0].(Bool)
		if b.T != nil {
			if e.Branch(b.T) {
				return Str{S: "true"}
			}
			return Str{S: "false"}
		}
		return Str{S: strconv.FormatBool(b.V)}
	}
	intrinsics["strconv.Quote"] = func(e *Engine, a []Value) Value { return Str{S: strconv.Quote(concStr(a[0]))} }
}
