package main

import (
	"fmt"
	"go/token"
	"go/types"
	"reflect"

	"golang.org/x/tools/go/ssa"
)

// RV models reflect.Value.
type RV struct {
	T     types.Type
	V     Value
	Valid bool
	Addr  *Value // non-nil if addressable (settable)
	RO    bool   // flagStickyRO: obtained via an unexported non-embedded field (inherited by sub-values)
	EmbRO bool   // flagEmbedRO: is itself an unexported embedded field (not inherited by its fields)
}

// RT models *reflect.rtype behind reflect.Type
type RT struct{ T types.Type }

var rtMarker = types.NewNamed(types.NewTypeName(0, nil, "rtypeModel", nil), types.NewStruct(nil, nil), nil)

func rtIface(t types.Type) Iface { return Iface{T: rtMarker, V: RT{t}} }

func kindOf(t types.Type) reflect.Kind {
	switch u := t.Underlying().(type) {
	case *types.Basic:
		switch u.Kind() {
		case types.Bool:
			return reflect.Bool
		case types.Int:
			return reflect.Int
		case types.Int8:
			return reflect.Int8
		case types.Int16:
			return reflect.Int16
		case types.Int32:
			return reflect.Int32
		case types.Int64:
			return reflect.Int64
		case types.Uint:
			return reflect.Uint
		case types.Uint8:
			return reflect.Uint8
		case types.Uint16:
			return reflect.Uint16
		case types.Uint32:
			return reflect.Uint32
		case types.Uint64:
			return reflect.Uint64
		case types.Uintptr:
			return reflect.Uintptr
		case types.Float32:
			return reflect.Float32
		case types.Float64:
			return reflect.Float64
		case types.String:
			return reflect.String
		case types.UnsafePointer:
			return reflect.UnsafePointer
		}
	case *types.Struct:
		return reflect.Struct
	case *types.Pointer:
		return reflect.Ptr
	case *types.Slice:
		return reflect.Slice
	case *types.Array:
		return reflect.Array
	case *types.Map:
		return reflect.Map
	case *types.Interface:
		return reflect.Interface
	case *types.Signature:
		return reflect.Func
	case *types.Chan:
		return reflect.Chan
	}
	return reflect.Invalid
}

func (e *Engine) reflectPanic(msg string) { e.goPanicStr("reflect: " + msg) }

func (e *Engine) rvKind(v RV) reflect.Kind {
	if !v.Valid {
		return reflect.Invalid
	}
	return kindOf(v.T)
}

func init() {
	kindInt := func(k reflect.Kind) Value { return mkInt(64, uint64(k)) }
	intrinsics["reflect.ValueOf"] = func(e *Engine, a []Value) Value {
		i := a[0].(Iface)
		if i.T == nil {
			return RV{}
		}
		return RV{T: i.T, V: i.V, Valid: true}
	}
	intrinsics["reflect.TypeOf"] = func(e *Engine, a []Value) Value {
		i := a[0].(Iface)
		if i.T == nil {
			return Iface{}
		}
		return rtIface(i.T)
	}
	intrinsics["(reflect.Value).Kind"] = func(e *Engine, a []Value) Value { return kindInt(e.rvKind(a[0].(RV))) }
	intrinsics["(reflect.Value).IsValid"] = func(e *Engine, a []Value) Value { return Bool{V: a[0].(RV).Valid} }
	intrinsics["(reflect.Value).CanInterface"] = func(e *Engine, a []Value) Value {
		v := a[0].(RV)
		if !v.Valid {
			e.reflectPanic("call of reflect.Value.CanInterface on zero Value")
		}
		return Bool{V: true} // unexported-field values not modelled yet
	}
	intrinsics["(reflect.Value).Type"] = func(e *Engine, a []Value) Value {
		v := a[0].(RV)
		if !v.Valid {
			e.reflectPanic("call of reflect.Value.Type on zero Value")
		}
		return rtIface(v.T)
	}
	intrinsics["(reflect.Value).Len"] = func(e *Engine, a []Value) Value {
		v := a[0].(RV)
		switch e.rvKind(v) {
		case reflect.Slice:
			return mkInt(64, uint64(v.V.(Slice).Len))
		case reflect.Array:
			return mkInt(64, uint64(len(v.V.(Array))))
		case reflect.String:
			return mkInt(64, uint64(v.V.(Str).Len()))
		case reflect.Map:
			m := v.V.(*MapV)
			if m == nil {
				return mkInt(64, 0)
			}
			return mkInt(64, uint64(m.n))
		case reflect.Chan:
			if c, _ := v.V.(*ChanV); c != nil {
				return mkInt(64, uint64(len(c.buf)))
			}
			return mkInt(64, 0)
		}
		e.reflectPanic(fmt.Sprintf("call of reflect.Value.Len on %v Value", e.rvKind(v)))
		return nil
	}
	intrinsics["(reflect.Value).Index"] = func(e *Engine, a []Value) Value {
		v := a[0].(RV)
		i := e.concInt(a[1])
		switch e.rvKind(v) {
		case reflect.Slice:
			s := v.V.(Slice)
			if i < 0 || i >= s.Len {
				e.reflectPanic("slice index out of range")
			}
			et := v.T.Underlying().(*types.Slice).Elem()
			cell := &(*s.A)[s.Off+i]
			return RV{T: et, V: copyVal(*cell), Valid: true, Addr: cell}
		case reflect.Array:
			arr := v.V.(Array)
			if i < 0 || i >= len(arr) {
				e.reflectPanic("array index out of range")
			}
			return RV{T: v.T.Underlying().(*types.Array).Elem(), V: copyVal(arr[i]), Valid: true}
		case reflect.String:
			s := v.V.(Str)
			if i < 0 || i >= s.Len() {
				e.reflectPanic("string index out of range")
			}
			return RV{T: types.Typ[types.Uint8], V: s.byteAt(i), Valid: true}
		}
		e.reflectPanic("call of reflect.Value.Index on " + e.rvKind(v).String() + " Value")
		return nil
	}
	intrinsics["(reflect.Value).Interface"] = func(e *Engine, a []Value) Value {
		v := a[0].(RV)
		if !v.Valid {
			e.reflectPanic("call of reflect.Value.Interface on zero Value")
		}
		if _, isI := v.T.Underlying().(*types.Interface); isI {
			// element of interface type: value already an Iface
			return v.V
		}
		return Iface{T: v.T, V: v.V}
	}
	intrinsics["(reflect.Value).String"] = func(e *Engine, a []Value) Value {
		v := a[0].(RV)
		if e.rvKind(v) == reflect.String {
			return v.V
		}
		return Str{S: "<" + v.T.String() + " Value>"}
	}
	intrinsics["(reflect.Value).MapKeys"] = func(e *Engine, a []Value) Value {
		v := a[0].(RV)
		if e.rvKind(v) != reflect.Map {
			e.reflectPanic("call of reflect.Value.MapKeys on " + e.rvKind(v).String() + " Value")
		}
		m := v.V.(*MapV)
		kt := v.T.Underlying().(*types.Map).Key()
		var arr []Value
		if m != nil {
			if e.mapAdversary && m.n > 1 {
				for _, i := range e.permute(m) {
					arr = append(arr, RV{T: kt, V: m.keys[i], Valid: true})
				}
			} else {
				for i, k := range m.keys {
					if !m.del[i] {
						arr = append(arr, RV{T: kt, V: k, Valid: true})
					}
				}
			}
		}
		return Slice{A: &arr, Len: len(arr), Cap: len(arr)}
	}
	intrinsics["(reflect.Value).MapIndex"] = func(e *Engine, a []Value) Value {
		v := a[0].(RV)
		k := a[1].(RV)
		if e.rvKind(v) != reflect.Map {
			e.reflectPanic("call of reflect.Value.MapIndex on " + e.rvKind(v).String() + " Value")
		}
		if !k.Valid {
			e.reflectPanic("call of reflect.Value.MapIndex with zero key Value")
		}
		mt := v.T.Underlying().(*types.Map)
		if !types.AssignableTo(k.T, mt.Key()) {
			e.reflectPanic("reflect.Value.MapIndex: value of type " + k.T.String() + " is not assignable to type " + mt.Key().String())
		}
		m := v.V.(*MapV)
		if m == nil {
			return RV{}
		}
		val, ok := e.mapGet(m, k.V)
		if !ok {
			return RV{}
		}
		return RV{T: mt.Elem(), V: copyVal(val), Valid: true}
	}
	// reflect.Type methods are dispatched from prepareCall via rtMethod
}

func (e *Engine) rtMethod(name string, rt RT, args []Value) Value {
	if v, ok := e.rtMethod2(name, rt, args); ok {
		return v
	}
	switch name {
	case "Kind":
		return mkInt(64, uint64(kindOf(rt.T)))
	case "Elem":
		switch u := rt.T.Underlying().(type) {
		case *types.Slice:
			return rtIface(u.Elem())
		case *types.Array:
			return rtIface(u.Elem())
		case *types.Pointer:
			return rtIface(u.Elem())
		case *types.Map:
			return rtIface(u.Elem())
		}
		e.reflectPanic("Elem of invalid type " + rt.T.String())
	case "Key":
		if u, ok := rt.T.Underlying().(*types.Map); ok {
			return rtIface(u.Key())
		}
		e.reflectPanic("Key of non-map type " + rt.T.String())
	case "String":
		return Str{S: rt.T.String()}
	}
	panic(unsupported("reflect.Type." + name))
}

type boundMethod struct {
	fn   *ssa.Function
	recv Value
	sig  *types.Signature
}

func isExported(name string) bool { return name != "" && name[0] >= 'A' && name[0] <= 'Z' }

func (e *Engine) exportedMethods(t types.Type) []*types.Selection {
	ms := e.prog.MethodSets.MethodSet(t)
	var out []*types.Selection
	for i := 0; i < ms.Len(); i++ {
		if isExported(ms.At(i).Obj().Name()) {
			out = append(out, ms.At(i))
		}
	}
	// MethodSet is sorted by Id; for exported names Id == name => sorted by name like reflect
	return out
}

func (e *Engine) reflectPkgType(name string) types.Type {
	return e.prog.ImportedPackage("reflect").Type(name).Type()
}

func intSliceVal(xs []int) Value {
	arr := make([]Value, len(xs))
	for i, x := range xs {
		arr[i] = mkInt(64, uint64(x))
	}
	return Slice{A: &arr, Len: len(arr), Cap: len(arr)}
}

func recvPkg(t types.Type) *types.Package {
	if p, ok := t.(*types.Pointer); ok {
		t = p.Elem()
	}
	if n, ok := t.(*types.Named); ok {
		return n.Obj().Pkg()
	}
	return nil
}

func init() {
	intrinsics["reflect.PtrTo"] = func(e *Engine, a []Value) Value {
		return rtIface(types.NewPointer(a[0].(Iface).V.(RT).T))
	}
	intrinsics["reflect.PointerTo"] = intrinsics["reflect.PtrTo"]
	intrinsics["reflect.New"] = func(e *Engine, a []Value) Value {
		t := a[0].(Iface).V.(RT).T
		cell := new(Value)
		*cell = zero(t)
		return RV{T: types.NewPointer(t), V: cell, Valid: true}
	}
	intrinsics["(reflect.Value).Elem"] = func(e *Engine, a []Value) Value {
		v := a[0].(RV)
		switch e.rvKind(v) {
		case reflect.Ptr:
			p := v.V.(*Value)
			if p == nil {
				return RV{}
			}
			return RV{T: v.T.Underlying().(*types.Pointer).Elem(), V: copyVal(*p), Valid: true, Addr: p}
		case reflect.Interface:
			i := v.V.(Iface)
			if i.T == nil {
				return RV{}
			}
			return RV{T: i.T, V: i.V, Valid: true}
		}
		e.reflectPanic("call of reflect.Value.Elem on " + e.rvKind(v).String() + " Value")
		return nil
	}
	intrinsics["(reflect.Value).IsNil"] = func(e *Engine, a []Value) Value {
		v := a[0].(RV)
		switch x := v.V.(type) {
		case *Value:
			return Bool{V: x == nil}
		case *MapV:
			return Bool{V: x == nil}
		case Slice:
			return Bool{V: x.Nil}
		case Iface:
			return Bool{V: x.T == nil}
		case *ChanV:
			return Bool{V: x == nil}
		case *ssa.Function:
			return Bool{V: x == nil}
		case *Closure:
			return Bool{V: x == nil}
		}
		e.reflectPanic("call of reflect.Value.IsNil on " + e.rvKind(v).String() + " Value")
		return nil
	}
	intrinsics["(reflect.Value).Field"] = func(e *Engine, a []Value) Value {
		v := a[0].(RV)
		if e.rvKind(v) != reflect.Struct {
			e.reflectPanic("call of reflect.Value.Field on " + e.rvKind(v).String() + " Value")
		}
		i := e.concInt(a[1])
		st := v.T.Underlying().(*types.Struct)
		if i < 0 || i >= st.NumFields() {
			e.reflectPanic("Field index out of range")
		}
		f := st.Field(i)
		r := RV{T: f.Type(), V: copyVal(v.V.(Struct)[i]), Valid: true, RO: v.RO || (!f.Exported() && !f.Embedded()), EmbRO: !f.Exported() && f.Embedded()}
		if v.Addr != nil {
			s := (*v.Addr).(Struct)
			r.Addr = &s[i]
		}
		return r
	}
	intrinsics["(reflect.Value).CanInterface"] = func(e *Engine, a []Value) Value {
		v := a[0].(RV)
		if !v.Valid {
			e.reflectPanic("call of reflect.Value.CanInterface on zero Value")
		}
		return Bool{V: !v.RO && !v.EmbRO}
	}
	intrinsics["(reflect.Value).Set"] = func(e *Engine, a []Value) Value {
		v, x := a[0].(RV), a[1].(RV)
		if v.Addr == nil || v.RO || v.EmbRO {
			e.reflectPanic("reflect.Value.Set using unaddressable value")
		}
		if !x.Valid {
			e.reflectPanic("reflect.Set: zero Value")
		}
		if !types.AssignableTo(x.T, v.T) {
			e.reflectPanic("reflect.Set: value of type " + x.T.String() + " is not assignable to type " + v.T.String())
		}
		val := x.V
		if _, isI := v.T.Underlying().(*types.Interface); isI {
			if _, xi := x.T.Underlying().(*types.Interface); !xi {
				val = Iface{T: x.T, V: x.V}
			}
		}
		e.store(v.Addr, val) // through the store path: read-only, ownership and lockset monitors see it
		return nil
	}
	intrinsics["(reflect.Value).CanSet"] = func(e *Engine, a []Value) Value {
		v := a[0].(RV)
		return Bool{V: v.Addr != nil && !v.RO && !v.EmbRO}
	}
	intrinsics["(reflect.Value).CanAddr"] = func(e *Engine, a []Value) Value {
		return Bool{V: a[0].(RV).Addr != nil}
	}
	intrinsics["(reflect.Value).Method"] = func(e *Engine, a []Value) Value {
		v := a[0].(RV)
		if !v.Valid {
			e.reflectPanic("call of reflect.Value.Method on zero Value")
		}
		i := e.concInt(a[1])
		ms := e.exportedMethods(v.T)
		if i < 0 || i >= len(ms) {
			e.reflectPanic("reflect: Method index out of range")
		}
		fn := e.prog.MethodValue(ms[i])
		sig := ms[i].Type().(*types.Signature)
		return RV{T: sig, V: boundMethod{fn: fn, recv: v.V, sig: sig}, Valid: true}
	}
	intrinsics["(reflect.Value).Call"] = func(e *Engine, a []Value) Value {
		v := a[0].(RV)
		bm, ok := v.V.(boundMethod)
		if !ok {
			panic(unsupported("reflect Call of non-method"))
		}
		args := []Value{bm.recv}
		in := a[1].(Slice)
		for i := 0; i < in.Len; i++ {
			args = append(args, (*in.A)[in.Off+i].(RV).V)
		}
		if in.Len != bm.sig.Params().Len() {
			e.reflectPanic("reflect: Call with too few input arguments")
		}
		res := e.call(bm.fn, args, nil)
		var outs []Value
		switch bm.sig.Results().Len() {
		case 0:
		case 1:
			outs = append(outs, RV{T: bm.sig.Results().At(0).Type(), V: res, Valid: true})
		default:
			for i, r := range res.(Tuple) {
				outs = append(outs, RV{T: bm.sig.Results().At(i).Type(), V: r, Valid: true})
			}
		}
		return Slice{A: &outs, Len: len(outs), Cap: len(outs)}
	}
}

func (e *Engine) rtMethod2(name string, rt RT, args []Value) (Value, bool) {
	switch name {
	case "FieldByName":
		n := args[0].(Str)
		if !n.isC() {
			panic(unsupported("symbolic FieldByName"))
		}
		sf := zero(e.reflectPkgType("StructField")).(Struct)
		if _, ok := rt.T.Underlying().(*types.Struct); !ok {
			e.reflectPanic("FieldByName of non-struct type " + rt.T.String())
		}
		obj, index, _ := types.LookupFieldOrMethod(rt.T, false, recvPkg(rt.T), n.S)
		fv, ok := obj.(*types.Var)
		if !ok || !fv.IsField() {
			return Tuple{sf, Bool{V: false}}, true
		}
		// StructField{Name, PkgPath, Type, Tag, Offset, Index, Anonymous}
		sf[0] = Str{S: fv.Name()}
		if !fv.Exported() && fv.Pkg() != nil {
			sf[1] = Str{S: fv.Pkg().Path()}
		}
		sf[2] = rtIface(fv.Type())
		sf[5] = intSliceVal(index)
		sf[6] = Bool{V: fv.Embedded()}
		return Tuple{sf, Bool{V: true}}, true
	case "MethodByName":
		n := args[0].(Str)
		if !n.isC() {
			panic(unsupported("symbolic MethodByName"))
		}
		m := zero(e.reflectPkgType("Method")).(Struct)
		ms := e.exportedMethods(rt.T)
		for i, sel := range ms {
			if sel.Obj().Name() == n.S {
				sig := sel.Type().(*types.Signature)
				var ps []*types.Var
				ps = append(ps, types.NewVar(0, nil, "recv", rt.T))
				for j := 0; j < sig.Params().Len(); j++ {
					ps = append(ps, sig.Params().At(j))
				}
				full := types.NewSignatureType(nil, nil, nil, types.NewTuple(ps...), sig.Results(), sig.Variadic())
				// Method{Name, PkgPath, Type, Func, Index}
				m[0] = Str{S: n.S}
				m[2] = rtIface(full)
				m[4] = mkInt(64, uint64(i))
				return Tuple{m, Bool{V: true}}, true
			}
		}
		return Tuple{m, Bool{V: false}}, true
	case "ConvertibleTo":
		other := args[0].(Iface).V.(RT).T
		return Bool{V: types.ConvertibleTo(rt.T, other)}, true
	case "AssignableTo":
		other := args[0].(Iface).V.(RT).T
		return Bool{V: types.AssignableTo(rt.T, other)}, true
	case "Name":
		if n, ok := rt.T.(*types.Named); ok {
			return Str{S: n.Obj().Name()}, true
		}
		if b, ok := rt.T.(*types.Basic); ok {
			return Str{S: b.Name()}, true
		}
		return Str{}, true
	case "NumField":
		st, ok := rt.T.Underlying().(*types.Struct)
		if !ok {
			e.reflectPanic("NumField of non-struct type " + rt.T.String())
		}
		return mkInt(64, uint64(st.NumFields())), true
	case "NumMethod":
		return mkInt(64, uint64(len(e.exportedMethods(rt.T)))), true
	case "Comparable":
		return Bool{V: types.Comparable(rt.T)}, true
	case "NumIn":
		sig, ok := rt.T.Underlying().(*types.Signature)
		if !ok {
			e.reflectPanic("NumIn of non-func type")
		}
		return mkInt(64, uint64(sig.Params().Len())), true
	}
	return nil, false
}

func init() {
	intrinsics["(reflect.Value).Convert"] = func(e *Engine, a []Value) Value {
		v := a[0].(RV)
		to := a[1].(Iface).V.(RT).T
		if !v.Valid {
			e.reflectPanic("call of reflect.Value.Convert on zero Value")
		}
		if !types.ConvertibleTo(v.T, to) {
			e.reflectPanic("reflect.Value.Convert: value of type " + v.T.String() + " cannot be converted to type " + to.String())
		}
		if types.Identical(v.T.Underlying(), to.Underlying()) {
			return RV{T: to, V: v.V, Valid: true}
		}
		if _, isI := to.Underlying().(*types.Interface); isI {
			return RV{T: to, V: Iface{T: v.T, V: v.V}, Valid: true}
		}
		return RV{T: to, V: e.convert(v.T, to, v.V), Valid: true}
	}
	intrinsics["(reflect.Value).NumField"] = func(e *Engine, a []Value) Value {
		v := a[0].(RV)
		st, ok := v.T.Underlying().(*types.Struct)
		if !v.Valid || !ok {
			e.reflectPanic("call of reflect.Value.NumField on " + e.rvKind(v).String() + " Value")
		}
		return mkInt(64, uint64(st.NumFields()))
	}
	intrinsics["(reflect.Value).NumMethod"] = func(e *Engine, a []Value) Value {
		v := a[0].(RV)
		if !v.Valid {
			e.reflectPanic("call of reflect.Value.NumMethod on zero Value")
		}
		return mkInt(64, uint64(len(e.exportedMethods(v.T))))
	}
	intrinsics["(reflect.Value).IsZero"] = func(e *Engine, a []Value) Value {
		v := a[0].(RV)
		if !v.Valid {
			e.reflectPanic("call of reflect.Value.IsZero on zero Value")
		}
		return e.binop(token.EQL, v.T, v.V, zero(v.T))
	}
}

func init() {
	intrinsics["(reflect.Value).FieldByIndex"] = func(e *Engine, a []Value) Value {
		v := a[0].(RV)
		idx := a[1].(Slice)
		field := intrinsics["(reflect.Value).Field"]
		elem := intrinsics["(reflect.Value).Elem"]
		if idx.Len == 1 {
			return field(e, []Value{v, (*idx.A)[idx.Off]})
		}
		if e.rvKind(v) != reflect.Struct {
			e.reflectPanic("call of reflect.Value.FieldByIndex on " + e.rvKind(v).String() + " Value")
		}
		for i := 0; i < idx.Len; i++ {
			if i > 0 && e.rvKind(v) == reflect.Ptr {
				if _, isStruct := v.T.Underlying().(*types.Pointer).Elem().Underlying().(*types.Struct); isStruct {
					if p, _ := v.V.(*Value); p == nil {
						e.reflectPanic("indirection through nil pointer to embedded struct")
					}
					v = elem(e, []Value{v}).(RV)
				}
			}
			v = field(e, []Value{v, (*idx.A)[idx.Off+i]}).(RV)
		}
		return v
	}
	intrinsics["(reflect.Value).FieldByName"] = func(e *Engine, a []Value) Value {
		v := a[0].(RV)
		if e.rvKind(v) != reflect.Struct {
			e.reflectPanic("call of reflect.Value.FieldByName on " + e.rvKind(v).String() + " Value")
		}
		res, _ := e.rtMethod2("FieldByName", RT{v.T}, []Value{a[1]})
		tu := res.(Tuple)
		if !tu[1].(Bool).V {
			return RV{}
		}
		return intrinsics["(reflect.Value).FieldByIndex"](e, []Value{v, tu[0].(Struct)[5]})
	}
}
