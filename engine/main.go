package main

import (
	"encoding/json"
	"flag"
	"fmt"
	"go/types"
	"os"
	"path/filepath"
	"regexp"
	"sort"
	"strconv"
	"strings"
	"sync"
	"time"

	"golang.org/x/tools/go/packages"
	"golang.org/x/tools/go/ssa"
	"golang.org/x/tools/go/ssa/ssautil"
)

type Violation struct {
	Kind     string   `json:"kind"` // assert | panic | frame | unwind | memory
	AssertID string   `json:"assert_id"`
	Tags     []string `json:"tags"`
	Where    string   `json:"where,omitempty"`
	Vector   []uint64 `json:"vector"` // nondet values in creation order (replay vector)
	Widths   []int    `json:"widths"`
	Text     string   `json:"text,omitempty"` // byte-valued nondets rendered as a Go string
	Count    int      `json:"count"`
	Solver   string   `json:"solver_answer,omitempty"`
}

func (v *Violation) key() string { return v.Kind + "|" + v.AssertID + "|" + strings.Join(v.Tags, ",") }

type Sample struct {
	End    string   `json:"end"`
	Vector []uint64 `json:"vector"`
	Text   string   `json:"text,omitempty"`
	Tags   []string `json:"tags,omitempty"`
	Cover  []string `json:"cover,omitempty"`
}

type Dropped struct {
	File  string `json:"file"`
	Error string `json:"error"`
}

type Result struct {
	Entry      string           `json:"entry"`
	Params     map[string]int64 `json:"params"`
	Paths      int              `json:"paths"`
	Forks      int              `json:"forks_solver"`
	ForksEnum  int              `json:"forks_enumerated"`
	Merges     int              `json:"if_conversions"`
	Queries    int              `json:"queries"`
	SolverS    float64          `json:"solver_s"`
	WallS      float64          `json:"wall_s"`
	LoadS      float64          `json:"load_s"`
	Ends       map[string]int   `json:"path_ends"`
	EndDetails map[string]int   `json:"path_end_details"`
	Cover      map[string]int   `json:"cover"`
	Violations []*Violation     `json:"violations"`
	Samples    []Sample         `json:"samples"`
	Funcs      map[string]int   `json:"functions_encoded"`
	StdFuncs   map[string]int   `json:"stdlib_interpreted"`
	Models     map[string]int   `json:"models_used"`
	Races      []string         `json:"race_candidates,omitempty"`
	Workers    int              `json:"workers"`
	Incomplete bool             `json:"incomplete"`
	Reason     string           `json:"incomplete_reason,omitempty"`
	MaxUnwind  int              `json:"max_unwinding_seen"`
	Unwind     int              `json:"unwind_bound"`
	Solver     string           `json:"solver"`
	Dropped    []Dropped        `json:"harness_dropped,omitempty"`
	Missing    bool             `json:"entry_missing,omitempty"`
	viol       map[string]*Violation
}

func (e *Engine) reportViolation(id string, neg *Term) { e.reportKind("assert", id, neg) }

func (e *Engine) modelVector(neg *Term) ([]uint64, []int, string, bool) {
	vals, ok := e.solver.Model(neg, e.symVars)
	if !ok {
		return nil, nil, "", false
	}
	var widths []int
	var bs []byte
	for i, sv := range e.symVars {
		widths = append(widths, sv.W)
		if sv.W == 8 {
			bs = append(bs, byte(vals[i]))
		}
	}
	return vals, widths, fmt.Sprintf("%q", bs), true
}

func (e *Engine) reportKind(kind, id string, neg *Term) {
	e.violations++
	v := &Violation{Kind: kind, AssertID: id, Tags: append([]string{}, e.tags...), Where: e.where(), Count: 1}
	sort.Strings(v.Tags)
	if old, ok := e.found[v.key()]; ok {
		old.Count++
		return
	}
	if vals, widths, text, ok := e.modelVector(neg); ok {
		v.Vector, v.Widths, v.Text = vals, widths, text
	}
	if v.Vector == nil {
		v.Vector = []uint64{}
	}
	if e.par != nil {
		v.Text += " schedule=" + string(e.par.log)
	} else if e.schedLog != "" {
		v.Text += " schedule=" + e.schedLog
	}
	e.found[v.key()] = v
}

func (e *Engine) resetPath(prefix []Decision) {
	e.prefix = prefix
	e.trace = nil
	e.pc = nil
	e.symN = 0
	e.symVars = nil
	e.steps = 0
	e.depth = 0
	e.tags = nil
	e.pathCover = nil
	e.vecPos = 0
	e.observed = nil
	e.symbolicSeen = false
	e.ls = lockState{shared: map[*Value]string{}, sharedMaps: map[*MapV]string{}, held: map[heldKey]string{}, names: map[*Value]string{}}
	e.readonly = map[*Value]string{}
	e.roMaps = map[*MapV]string{}
	e.mapAdversary = false
	e.onceDone = nil
	e.stack = nil
	e.cur = nil
	e.globals = map[*ssa.Global]*Value{}
	e.parent = map[*Value]parentInfo{}
	e.pools = map[*Value][]Value{}
	e.inPool = map[*Value]bool{}
	e.byteBacking = nil
	e.clock = 0
	e.poolPrivate = nil
	e.syncMaps = nil
	e.strViews = nil
	e.fs = nil
	e.fsTmpN = 0
	e.par = nil
	e.mutexes = map[*Value]*mutexSt{}
	e.auxN = 0
	e.schedLog = ""
	e.cellArr = nil
	e.copyCells = nil
	e.initRan = map[*ssa.Package]bool{}
	e.panicking = nil
	e.poolModel = 0
	e.enumForksPath = 0
	e.solver.Reset()
}

func (e *Engine) runPath(entry *ssa.Function, prefix []Decision) (end pathEnd) {
	e.resetPath(prefix)
	defer func() {
		r := recover()
		e.endThreads()
		if r != nil {
			switch r := r.(type) {
			case pathEnd:
				end = r
				if r.kind == "fuel" {
					e.reportKind("unwind", r.msg, nil)
				}
				if r.kind == "violation" {
					e.reportKind("memory", r.msg, nil)
				}
			case goPanic:
				end = pathEnd{"panic", e.valString(r.v) + " @ " + e.where()}
				if e.panicsReport {
					e.reportKind("panic", normPanic(e.valString(r.v))+" in "+e.curFunc(), nil)
				}
			case solverFault:
				// the solver process is in an unknown state: replace it; the path counts as not explored
				first := r.msg
				if i := strings.IndexByte(first, '\n'); i >= 0 {
					first = first[:i]
				}
				if os.Getenv("SYMX_DEBUG") != "" {
					fmt.Println(r.msg)
				}
				old := e.solver
				old.Kill()
				e.solver = NewSolver(e.solverAlt)
				e.solver.Queries, e.solver.Time = old.Queries, old.Time
				end = pathEnd{"internal", first}
			case unsupportedErr:
				where := ""
				if e.cur != nil {
					where = fmt.Sprintf(" @ %s: %s [%s]", e.cur.Parent(), e.cur, e.prog.Fset.Position(e.cur.Pos()))
				}
				end = pathEnd{"unsupported", r.msg + where}
				if os.Getenv("SYMX_DEBUG") != "" {
					fmt.Println("UNSUPPORTED", r.msg, "; ssa stack:")
					for _, f := range e.stack {
						fmt.Println("   ", f)
					}
				}
			default:
				top := ""
				if len(e.stack) > 0 {
					top = e.stack[len(e.stack)-1]
				}
				where := ""
				if e.cur != nil {
					where = fmt.Sprintf(" @ %s [%s]", e.cur, e.prog.Fset.Position(e.cur.Pos()))
				}
				end = pathEnd{"internal", fmt.Sprintf("%v in %s%s", r, top, where)}
				if os.Getenv("SYMX_DEBUG") != "" {
					fmt.Println("INTERNAL PANIC; ssa stack:")
					for _, f := range e.stack {
						fmt.Println("   ", f)
					}
					panic(r)
				}
			}
		}
	}()
	e.call(e.pkg.Func("init"), nil, nil)
	e.call(entry, nil, nil)
	return pathEnd{"ok", ""}
}

func newEngine(prog *ssa.Program, pkg *ssa.Package, cfg *Config) *Engine {
	e := newEngine0(prog, pkg, cfg)
	if cfg.UnwindIn != "" {
		e.unwindIn = map[*ssa.Function]int{}
		for name, n := range parseParams(cfg.UnwindIn) {
			for fn := range ssautil.AllFunctions(prog) {
				if fn.Pkg == pkg && strings.Contains(fn.String(), name) {
					e.unwindIn[fn] = int(n)
				}
			}
		}
	}
	return e
}

func newEngine0(prog *ssa.Program, pkg *ssa.Package, cfg *Config) *Engine {
	return &Engine{prog: prog, pkg: pkg, solver: NewSolver(cfg.Solver), solverAlt: cfg.Solver, fuel: cfg.Fuel, unwind: cfg.Unwind, mergeOn: cfg.Merge,
		covered: map[string]int{}, funcsSeen: map[string]int{}, stdSeen: map[string]int{}, modelsSeen: map[string]int{}, found: map[string]*Violation{},
		accesses: map[string]map[access]int{}, initStoreCache: map[*ssa.Package]map[*ssa.Global]bool{}, sizes: types.SizesFor("gc", "amd64"), params: cfg.Params,
		panicsReport: cfg.Panics == "report", maxDepth: cfg.Depth}
}

type Config struct {
	Entry    string
	Params   map[string]int64
	Fuel     int
	Unwind   int
	Depth    int
	MaxPaths int
	Merge    bool
	Workers  int
	Timeout  time.Duration
	Panics   string
	Samples  int
	Solver   string
	Harness  string
	Repo     string
	UnwindIn string
}

func parseParams(s string) map[string]int64 {
	m := map[string]int64{}
	for _, kv := range strings.Split(s, ",") {
		kv = strings.TrimSpace(kv)
		if kv == "" {
			continue
		}
		i := strings.Index(kv, "=")
		if i < 0 {
			continue
		}
		v, _ := strconv.ParseInt(kv[i+1:], 10, 64)
		m[kv[:i]] = v
	}
	return m
}

// load builds SSA for /repo with the harness overlay. Harness files that no longer type-check against
// the (possibly edited) tree are dropped one by one; errors elsewhere are fatal.
func load(cfg *Config) (*ssa.Program, *ssa.Package, []Dropped, error) {
	overlay := map[string][]byte{}
	hs, _ := filepath.Glob(cfg.Harness + "/zz_*.go")
	for _, h := range hs {
		b, _ := os.ReadFile(h)
		overlay[filepath.Join(cfg.Repo, filepath.Base(h))] = b
	}
	var dropped []Dropped
	for attempt := 0; attempt < 40; attempt++ {
		pc := &packages.Config{Mode: packages.LoadAllSyntax, Dir: cfg.Repo, Overlay: overlay,
			Env: append(os.Environ(), "GOFLAGS=-mod=mod", "GOPROXY=off")}
		pkgs, err := packages.Load(pc, ".")
		if err != nil {
			return nil, nil, dropped, err
		}
		var bad []string
		var fatal []string
		packages.Visit(pkgs, nil, func(p *packages.Package) {
			for _, pe := range p.Errors {
				f := pe.Pos
				if i := strings.Index(f, ":"); i > 0 {
					f = f[:i]
				}
				base := filepath.Base(f)
				if strings.HasPrefix(base, "zz_") && base != "zz_verif_api.go" {
					if _, still := overlay[filepath.Join(cfg.Repo, base)]; still {
						bad = append(bad, base)
						dropped = append(dropped, Dropped{File: base, Error: pe.Msg})
						delete(overlay, filepath.Join(cfg.Repo, base))
					}
				} else {
					fatal = append(fatal, pe.Error())
				}
			}
		})
		if len(bad) > 0 {
			continue
		}
		if len(fatal) > 0 {
			// errors outside harness files may be induced by a dropped harness helper; report
			return nil, nil, dropped, fmt.Errorf("package does not type-check: %s", strings.Join(fatal, "; "))
		}
		prog, spkgs := ssautil.AllPackages(pkgs, ssa.InstantiateGenerics)
		prog.Build()
		return prog, spkgs[0], dropped, nil
	}
	return nil, nil, dropped, fmt.Errorf("could not obtain a type-correct overlay")
}

func parseVector(line string) []uint64 {
	out := []uint64{}
	for _, f := range strings.Split(line, ",") {
		f = strings.TrimSpace(f)
		if f == "" {
			continue
		}
		v, _ := strconv.ParseUint(f, 10, 64)
		out = append(out, v)
	}
	return out
}

func (e *Engine) concreteObs(entry *ssa.Function, vec []uint64) string {
	e.vector = vec
	e.found = map[string]*Violation{}
	end := e.runPath(entry, nil)
	obs := append([]string{}, e.observed...)
	switch end.kind {
	case "ok":
	case "panic":
		obs = append(obs, "PANIC")
	case "infeasible":
		obs = append(obs, "END-infeasible")
	default:
		obs = append(obs, "END-"+end.kind+":"+end.msg)
	}
	return strings.Join(obs, " ;; ")
}

func main() {
	cfg := &Config{}
	flag.StringVar(&cfg.Entry, "entry", "", "harness entry function")
	params := flag.String("param", "", "k=v,k=v harness parameters (symParam)")
	flag.IntVar(&cfg.Fuel, "fuel", 5000000, "steps per path")
	flag.IntVar(&cfg.MaxPaths, "maxpaths", 2000000, "")
	flag.BoolVar(&cfg.Merge, "merge", true, "if-conversion")
	flag.IntVar(&cfg.Unwind, "unwind", 5000, "max visits of one block per frame once symbolic values exist")
	flag.IntVar(&cfg.Depth, "depth", 250, "max call depth")
	flag.IntVar(&cfg.Workers, "workers", 16, "")
	flag.DurationVar(&cfg.Timeout, "timeout", 10*time.Minute, "wall budget for the exploration")
	flag.StringVar(&cfg.Panics, "panics", "cut", "cut|report: whether a Go panic on a path is a violation")
	flag.IntVar(&cfg.Samples, "samples", 6, "path witnesses to record")
	flag.StringVar(&cfg.Solver, "solver", os.Getenv("SOLVER"), "solver command (default z3 -in)")
	jsonOut := flag.String("json", "", "write result JSON here")
	flag.StringVar(&cfg.UnwindIn, "unwind-in", "", "name=N,...: tighter unwinding bound for functions whose name contains name")
	flag.StringVar(&cfg.Harness, "harness", "/verif/harness", "")
	flag.StringVar(&cfg.Repo, "repo", "/repo", "")
	vectorsFile := flag.String("vectors", "", "file of vectors: concrete batch mode, prints observations")
	listEntries := flag.Bool("list", false, "list harness entries")
	quiet := flag.Bool("q", false, "")
	flag.Parse()
	cfg.Params = parseParams(*params)

	t0 := time.Now()
	prog, pkg, dropped, err := load(cfg)
	if err != nil {
		fmt.Println("LOAD-ERROR:", err)
		if *jsonOut != "" {
			b, _ := json.MarshalIndent(map[string]interface{}{"load_error": err.Error(), "harness_dropped": dropped}, "", " ")
			os.WriteFile(*jsonOut, b, 0644)
		}
		os.Exit(3)
	}
	loadS := time.Since(t0)
	if *listEntries {
		var names []string
		for n := range pkg.Members {
			if strings.HasPrefix(n, "VH_") {
				names = append(names, n)
			}
		}
		sort.Strings(names)
		fmt.Println(strings.Join(names, "\n"))
		return
	}
	res := &Result{Entry: cfg.Entry, Params: cfg.Params, Ends: map[string]int{}, EndDetails: map[string]int{}, Cover: map[string]int{},
		Funcs: map[string]int{}, StdFuncs: map[string]int{}, Models: map[string]int{}, viol: map[string]*Violation{}, Workers: cfg.Workers,
		Dropped: dropped, Unwind: cfg.Unwind, LoadS: loadS.Seconds(), Solver: cfg.Solver, Violations: []*Violation{}, Samples: []Sample{}}
	if res.Solver == "" {
		res.Solver = "z3 -in"
	}
	writeJSON := func() {
		if *jsonOut != "" {
			b, _ := json.MarshalIndent(res, "", " ")
			os.WriteFile(*jsonOut, b, 0644)
		}
	}
	entry := pkg.Func(cfg.Entry)
	if entry == nil {
		res.Missing = true
		fmt.Println("ENTRY-MISSING:", cfg.Entry)
		writeJSON()
		os.Exit(4)
	}

	if *vectorsFile != "" {
		data, _ := os.ReadFile(*vectorsFile)
		e := newEngine(prog, pkg, cfg)
		for _, line := range strings.Split(strings.TrimSpace(string(data)), "\n") {
			fmt.Printf("VEC %s :: %s\n", line, e.concreteObs(entry, parseVector(line)))
		}
		e.solver.Close()
		return
	}

	var mu sync.Mutex
	queue := [][]Decision{{}}
	active := 0
	cond := sync.NewCond(&mu)
	t1 := time.Now()
	deadline := t1.Add(cfg.Timeout)
	var wg sync.WaitGroup
	engines := make([]*Engine, cfg.Workers)
	for w := 0; w < cfg.Workers; w++ {
		wg.Add(1)
		go func(w int) {
			defer wg.Done()
			e := newEngine(prog, pkg, cfg)
			engines[w] = e
			for {
				mu.Lock()
				for len(queue) == 0 && active > 0 {
					cond.Wait()
				}
				stop := ""
				if res.Paths >= cfg.MaxPaths {
					stop = "maxpaths"
				} else if time.Now().After(deadline) {
					stop = "timeout"
				}
				if len(queue) == 0 || stop != "" {
					if len(queue) > 0 {
						res.Incomplete = true
						res.Reason = stop
					}
					mu.Unlock()
					cond.Broadcast()
					return
				}
				p := queue[len(queue)-1]
				queue = queue[:len(queue)-1]
				active++
				res.Paths++
				mu.Unlock()

				e.pending = nil
				e.deadline = deadline
				end := e.runPath(entry, p)
				var smp *Sample
				if end.kind != "infeasible" && end.kind != "internal" {
					mu.Lock()
					want := len(res.Samples) < cfg.Samples
					mu.Unlock()
					if want {
						if vals, _, text, ok := e.modelVector(nil); ok {
							smp = &Sample{End: end.kind, Vector: vals, Text: text, Tags: append([]string{}, e.tags...), Cover: append([]string{}, e.pathCover...)}
							if smp.Vector == nil {
								smp.Vector = []uint64{}
							}
						}
					}
				}

				mu.Lock()
				queue = append(queue, e.pending...)
				active--
				res.Ends[end.kind]++
				if end.kind != "ok" {
					res.EndDetails[end.kind+": "+end.msg]++
				}
				if smp != nil && len(res.Samples) < cfg.Samples {
					res.Samples = append(res.Samples, *smp)
				}
				mu.Unlock()
				cond.Broadcast()
			}
		}(w)
	}
	wg.Wait()
	res.WallS = time.Since(t1).Seconds()
	accesses := map[string]map[access]int{}
	for _, e := range engines {
		if e == nil {
			continue
		}
		res.Forks += e.forks
		res.ForksEnum += e.enumForks
		res.Merges += e.merges
		res.Queries += e.solver.Queries
		res.SolverS += e.solver.Time.Seconds()
		if e.maxUnwindSeen > res.MaxUnwind {
			res.MaxUnwind = e.maxUnwindSeen
		}
		for k, v := range e.covered {
			res.Cover[k] += v
		}
		for k, v := range e.funcsSeen {
			res.Funcs[k] += v
		}
		for k, v := range e.stdSeen {
			res.StdFuncs[k] += v
		}
		for k, v := range e.modelsSeen {
			res.Models[k] += v
		}
		for k, v := range e.found {
			if old, ok := res.viol[k]; ok {
				old.Count += v.Count
			} else {
				res.viol[k] = v
			}
		}
		for loc, m := range e.accesses {
			if accesses[loc] == nil {
				accesses[loc] = map[access]int{}
			}
			for a, n := range m {
				accesses[loc][a] += n
			}
		}
		e.solver.Close()
	}
	var keys []string
	for k := range res.viol {
		keys = append(keys, k)
	}
	sort.Strings(keys)
	for _, k := range keys {
		res.Violations = append(res.Violations, res.viol[k])
	}
	res.Races = raceCandidates(accesses)
	// one violation per racy location
	racyLoc := map[string]string{}
	for _, r := range res.Races {
		// "RACE-CANDIDATE loc=<loc> write@..."
		rest := strings.TrimPrefix(r, "RACE-CANDIDATE loc=")
		if i := strings.Index(rest, " "); i > 0 {
			if _, ok := racyLoc[rest[:i]]; !ok {
				racyLoc[rest[:i]] = rest[i+1:]
			}
		}
	}
	var locs []string
	for l := range racyLoc {
		locs = append(locs, l)
	}
	sort.Strings(locs)
	for _, l := range locs {
		res.Violations = append(res.Violations, &Violation{Kind: "race", AssertID: "unsynchronised access to " + l, Tags: []string{}, Where: racyLoc[l], Vector: []uint64{}, Count: 1})
	}
	for k, n := range res.Ends {
		if (k == "unsupported" || k == "internal" || k == "fuel") && n > 0 && !res.Incomplete {
			// paths were cut: exploration is not exhaustive within the bound
			res.Incomplete = true
			res.Reason = "paths cut: " + k
		}
	}

	if !*quiet {
		fmt.Printf("load=%.1fs entry=%s params=%v workers=%d paths=%d forks=%d enum=%d merges=%d queries=%d solver=%.1fs wall=%.1fs incomplete=%v %s\n",
			loadS.Seconds(), res.Entry, cfg.Params, cfg.Workers, res.Paths, res.Forks, res.ForksEnum, res.Merges, res.Queries, res.SolverS, res.WallS, res.Incomplete, res.Reason)
		fmt.Println("ends:", res.Ends)
		var ks []string
		for k := range res.EndDetails {
			ks = append(ks, k)
		}
		sort.Strings(ks)
		for i, k := range ks {
			if i >= 25 {
				fmt.Printf("  ... %d more\n", len(ks)-i)
				break
			}
			fmt.Printf("  %5d %s\n", res.EndDetails[k], k)
		}
		fmt.Println("cover:", res.Cover)
		for _, v := range res.Violations {
			fmt.Printf("VIOL kind=%s id=%q tags=%v x%d text=%s vector=%v where=%s\n", v.Kind, v.AssertID, v.Tags, v.Count, v.Text, v.Vector, v.Where)
		}
		for _, r := range res.Races {
			fmt.Println(r)
		}
		fmt.Println("functions encoded:", len(res.Funcs), "stdlib interpreted:", len(res.StdFuncs), "models:", len(res.Models))
	}
	writeJSON()
}

var digitsRe = regexp.MustCompile(`-?[0-9]+`)

// normPanic removes the concrete numbers from a runtime panic message so that one defect is one identity.
func normPanic(s string) string { return digitsRe.ReplaceAllString(s, "N") }

func (e *Engine) curFunc() string {
	if e.cur == nil || e.cur.Parent() == nil {
		return "?"
	}
	return e.cur.Parent().String()
}
