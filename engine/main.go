package main

import (
	"encoding/json"
	"flag"
	"fmt"
	"go/types"
	"os"
	"path/filepath"
	"sort"
	"strings"
	"sync"
	"time"

	"golang.org/x/tools/go/packages"
	"golang.org/x/tools/go/ssa"
	"golang.org/x/tools/go/ssa/ssautil"
)

type Violation struct {
	Kind     string   `json:"kind"` // assert | panic | frame | unwind
	AssertID string   `json:"assert_id"`
	Tags     []string `json:"tags"`
	Where    string   `json:"where,omitempty"`
	Vector   []uint64 `json:"vector"` // nondet values in creation order (replay vector)
	Widths   []int    `json:"widths"`
	Text     string   `json:"text,omitempty"` // byte-valued nondets rendered as a Go string
	Count    int      `json:"count"`
}

func (v *Violation) key() string { return v.Kind + "|" + v.AssertID + "|" + strings.Join(v.Tags, ",") }

type Result struct {
	Entry       string             `json:"entry"`
	Paths       int                `json:"paths"`
	Forks       int                `json:"forks_solver"`
	Merges      int                `json:"if_conversions"`
	Queries     int                `json:"queries"`
	SolverS     float64            `json:"solver_s"`
	WallS       float64            `json:"wall_s"`
	Ends        map[string]int     `json:"path_ends"`
	EndDetails  map[string]int     `json:"path_end_details"`
	Cover       map[string]int     `json:"cover"`
	Violations  []*Violation       `json:"violations"`
	Funcs       map[string]int     `json:"functions_encoded"`
	Races       []string           `json:"race_candidates,omitempty"`
	Workers     int                `json:"workers"`
	Incomplete  bool               `json:"incomplete"`
	viol        map[string]*Violation
}

func (e *Engine) reportViolation(id string, neg *Term) { e.reportKind("assert", id, neg) }

func (e *Engine) reportKind(kind, id string, neg *Term) {
	e.violations++
	v := &Violation{Kind: kind, AssertID: id, Tags: append([]string{}, e.tags...), Where: e.where(), Count: 1}
	sort.Strings(v.Tags)
	if old, ok := e.found[v.key()]; ok {
		old.Count++
		return
	}
	vals, ok := e.solver.Model(neg, e.symVars)
	if ok {
		v.Vector = vals
		var bs []byte
		for i, sv := range e.symVars {
			v.Widths = append(v.Widths, sv.W)
			if sv.W == 8 {
				bs = append(bs, byte(vals[i]))
			}
		}
		v.Text = fmt.Sprintf("%q", bs)
	}
	e.found[v.key()] = v
}

func (e *Engine) runPath(entry *ssa.Function, prefix []int) (end pathEnd) {
	e.prefix = prefix
	e.trace = nil
	e.pc = nil
	e.symN = 0
	e.symVars = nil
	e.steps = 0
	e.depth = 0
	e.tags = nil
	e.vecPos = 0
	e.observed = nil
	e.symbolicSeen = false
	e.ls = lockState{shared: map[*Value]string{}, sharedMaps: map[*MapV]string{}, held: map[*Value]string{}, names: map[*Value]string{}}
	e.readonly = map[*Value]string{}
	e.roMaps = map[*MapV]string{}
	e.mapAdversary = false
	e.onceDone = nil
	e.stack = nil
	e.cur = nil
	e.globals = map[*ssa.Global]*Value{}
	e.parent = map[*Value]parentInfo{}
	e.pools = map[*Value][]Value{}
	e.byteBacking = nil
	e.solver.Reset()
	defer func() {
		if r := recover(); r != nil {
			switch r := r.(type) {
			case pathEnd:
				end = r
				if r.kind == "fuel" {
					e.reportKind("unwind", r.msg, nil)
				}
			case goPanic:
				end = pathEnd{"panic", e.valString(r.v)}
				e.reportKind("panic", end.msg, nil)
			case unsupportedErr:
				where := ""
				if e.cur != nil {
					where = fmt.Sprintf(" @ %s: %s [%s]", e.cur.Parent(), e.cur, e.prog.Fset.Position(e.cur.Pos()))
				}
				end = pathEnd{"unsupported", r.msg + where}
			default:
				if e.batch {
					top := ""
					if len(e.stack) > 0 {
						top = e.stack[len(e.stack)-1]
					}
					end = pathEnd{"internal", fmt.Sprintf("%v in %s", r, top)}
					return
				}
				fmt.Println("INTERNAL PANIC; ssa stack:")
				for _, f := range e.stack {
					fmt.Println("   ", f)
				}
				panic(r)
			}
		}
	}()
	e.call(e.pkg.Func("init"), nil, nil)
	e.call(entry, nil, nil)
	return pathEnd{"ok", ""}
}

func newEngine(prog *ssa.Program, pkg *ssa.Package, fuel, unwind int, merge bool) *Engine {
	return &Engine{prog: prog, pkg: pkg, solver: NewSolver(), fuel: fuel, unwind: unwind, mergeOn: merge,
		covered: map[string]int{}, funcsSeen: map[string]int{}, found: map[string]*Violation{},
		accesses: map[string]map[access]int{}, sizes: types.SizesFor("gc", "amd64")}
}

func main() {
	entryName := flag.String("entry", "VH_Agree", "harness entry")
	fuel := flag.Int("fuel", 3000000, "steps per path")
	maxPaths := flag.Int("maxpaths", 1000000, "")
	merge := flag.Bool("merge", true, "if-conversion")
	unwind := flag.Int("unwind", 5000, "max visits of one block per frame once symbolic values exist")
	workers := flag.Int("workers", 8, "")
	jsonOut := flag.String("json", "", "write result JSON here")
	harnessDir := flag.String("harness", "/tmp/proto/harness", "")
	vectorsFile := flag.String("vectors", "", "file of vectors: concrete batch mode")
	vector := flag.String("vector", "", "comma separated nondet values: run one concrete path and print observations")
	flag.Parse()

	t0 := time.Now()
	overlay := map[string][]byte{}
	hs, _ := filepath.Glob(*harnessDir + "/*.go")
	for _, h := range hs {
		b, _ := os.ReadFile(h)
		overlay["/repo/"+filepath.Base(h)] = b
	}
	cfg := &packages.Config{Mode: packages.LoadAllSyntax, Dir: "/repo", Overlay: overlay,
		Env: append(os.Environ(), "GOFLAGS=-mod=mod", "GOPROXY=off")}
	pkgs, err := packages.Load(cfg, ".")
	if err != nil {
		panic(err)
	}
	if packages.PrintErrors(pkgs) > 0 {
		os.Exit(2)
	}
	prog, spkgs := ssautil.AllPackages(pkgs, ssa.InstantiateGenerics)
	prog.Build()
	loadS := time.Since(t0)
	pkg := spkgs[0]
	entry := pkg.Func(*entryName)
	if entry == nil {
		panic("no entry " + *entryName)
	}

	if *vectorsFile != "" {
		data, _ := os.ReadFile(*vectorsFile)
		e := newEngine(prog, pkg, *fuel, *unwind, *merge)
		e.batch = true
		for _, line := range strings.Split(strings.TrimSpace(string(data)), "\n") {
			e.vector = []uint64{}
			for _, f := range strings.Split(line, ",") {
				var v uint64
				fmt.Sscan(strings.TrimSpace(f), &v)
				e.vector = append(e.vector, v)
			}
			end := e.runPath(entry, nil)
			obs := e.observed
			if end.kind == "panic" {
				obs = append(obs, "PANIC")
			} else if end.kind != "ok" {
				obs = append(obs, "END-"+end.kind+":"+end.msg)
			}
			fmt.Printf("VEC %s :: %s\n", line, strings.Join(obs, " ;; "))
		}
		return
	}
	if *vector != "" {
		e := newEngine(prog, pkg, *fuel, *unwind, *merge)
		e.vector = []uint64{}
		for _, f := range strings.Split(*vector, ",") {
			var v uint64
			fmt.Sscan(strings.TrimSpace(f), &v)
			e.vector = append(e.vector, v)
		}
		end := e.runPath(entry, nil)
		fmt.Println("END", end.kind, end.msg)
		for _, o := range e.observed {
			fmt.Println("OBS", o)
		}
		for _, v := range e.found {
			fmt.Println("FAILED", v.Kind, v.AssertID)
		}
		return
	}
	res := &Result{Entry: *entryName, Ends: map[string]int{}, EndDetails: map[string]int{}, Cover: map[string]int{},
		Funcs: map[string]int{}, viol: map[string]*Violation{}, Workers: *workers}
	var mu sync.Mutex
	queue := [][]int{{}}
	active := 0
	cond := sync.NewCond(&mu)
	t1 := time.Now()
	var wg sync.WaitGroup
	engines := make([]*Engine, *workers)
	for w := 0; w < *workers; w++ {
		wg.Add(1)
		go func(w int) {
			defer wg.Done()
			e := newEngine(prog, pkg, *fuel, *unwind, *merge)
			engines[w] = e
			for {
				mu.Lock()
				for len(queue) == 0 && active > 0 {
					cond.Wait()
				}
				if len(queue) == 0 || res.Paths >= *maxPaths {
					if len(queue) > 0 {
						res.Incomplete = true
					}
					mu.Unlock()
					cond.Broadcast()
					return
				}
				p := queue[len(queue)-1]
				queue = queue[:len(queue)-1]
				active++
				res.Paths++
				mu.Unlock()

				e.pending = nil
				end := e.runPath(entry, p)

				mu.Lock()
				queue = append(queue, e.pending...)
				active--
				res.Ends[end.kind]++
				if end.kind != "ok" {
					res.EndDetails[end.kind+": "+end.msg]++
				}
				mu.Unlock()
				cond.Broadcast()
			}
		}(w)
	}
	wg.Wait()
	res.WallS = time.Since(t1).Seconds()
	accesses := map[string]map[access]int{}
	for _, e := range engines {
		if e == nil {
			continue
		}
		res.Forks += e.forks
		res.Merges += e.merges
		res.Queries += e.solver.Queries
		res.SolverS += e.solver.Time.Seconds()
		for k, v := range e.covered {
			res.Cover[k] += v
		}
		for k, v := range e.funcsSeen {
			res.Funcs[k] += v
		}
		for k, v := range e.found {
			if old, ok := res.viol[k]; ok {
				old.Count += v.Count
			} else {
				res.viol[k] = v
			}
		}
		for loc, m := range e.accesses {
			if accesses[loc] == nil {
				accesses[loc] = map[access]int{}
			}
			for a, n := range m {
				accesses[loc][a] += n
			}
		}
		e.solver.Close()
	}
	var keys []string
	for k := range res.viol {
		keys = append(keys, k)
	}
	sort.Strings(keys)
	for _, k := range keys {
		res.Violations = append(res.Violations, res.viol[k])
	}
	res.Races = raceCandidates(accesses)

	fmt.Printf("load=%.1fs entry=%s workers=%d paths=%d forks=%d merges=%d queries=%d solver=%.1fs wall=%.1fs incomplete=%v\n",
		loadS.Seconds(), res.Entry, *workers, res.Paths, res.Forks, res.Merges, res.Queries, res.SolverS, res.WallS, res.Incomplete)
	fmt.Println("ends:", res.Ends)
	var ks []string
	for k := range res.EndDetails {
		ks = append(ks, k)
	}
	sort.Strings(ks)
	for _, k := range ks {
		fmt.Printf("  %5d %s\n", res.EndDetails[k], k)
	}
	fmt.Println("cover:", res.Cover)
	for _, v := range res.Violations {
		fmt.Printf("VIOL kind=%s id=%q tags=%v x%d text=%s vector=%v\n", v.Kind, v.AssertID, v.Tags, v.Count, v.Text, v.Vector)
	}
	for _, r := range res.Races {
		fmt.Println(r)
	}
	fmt.Println("functions encoded:", len(res.Funcs))
	if *jsonOut != "" {
		b, _ := json.MarshalIndent(res, "", " ")
		os.WriteFile(*jsonOut, b, 0644)
	}
}
