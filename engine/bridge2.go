package main

import (
	"encoding/json"
	"fmt"
	"go/token"
	"go/types"
	"reflect"
	"regexp"
	"strconv"
	"time"
)

// nativeOf converts a fully concrete interpreter value to a native Go value (for json bridging).
func (e *Engine) nativeOf(v Value) (interface{}, bool) {
	switch v := v.(type) {
	case Iface:
		if v.T == nil {
			return nil, true
		}
		return e.nativeOf(v.V)
	case Str:
		if v.isC() {
			return v.S, true
		}
	case Int:
		if v.T == nil {
			if v.W == 64 {
				return int(signExt(v.V, v.W)), true
			}
			return signExt(v.V, v.W), true
		}
	case Bool:
		if v.T == nil {
			return v.V, true
		}
	case Float:
		return v.V, true
	case Slice:
		out := make([]interface{}, 0, v.Len)
		for i := 0; i < v.Len; i++ {
			x, ok := e.nativeOf((*v.A)[v.Off+i])
			if !ok {
				return nil, false
			}
			out = append(out, x)
		}
		return out, true
	case *MapV:
		// a map whose keys are stored as interface values is an interface-keyed Go map
		// (map[interface{}]T): encoding/json rejects those, so the native value must keep that type
		if v != nil {
			ifaceKeys := false
			for i, k := range v.keys {
				if _, isI := k.(Iface); isI && !v.del[i] {
					ifaceKeys = true
				}
			}
			if ifaceKeys {
				out := map[interface{}]interface{}{}
				for i, k := range v.keys {
					if v.del[i] {
						continue
					}
					nk, ok := e.nativeOf(k)
					if !ok {
						return nil, false
					}
					x, ok := e.nativeOf(v.vals[i])
					if !ok {
						return nil, false
					}
					out[nk] = x
				}
				return out, true
			}
		}
		out := map[string]interface{}{}
		if v != nil {
			for i, k := range v.keys {
				if v.del[i] {
					continue
				}
				ks, ok := k.(Str)
				if ik, isInt := k.(Int); isInt && ik.T == nil {
					// encoding/json writes integer keys as strings and sorts the strings
					ks, ok = Str{S: strconv.FormatInt(signExt(ik.V, ik.W), 10)}, true
				}
				if !ok || !ks.isC() {
					return nil, false
				}
				x, ok := e.nativeOf(v.vals[i])
				if !ok {
					return nil, false
				}
				out[ks.S] = x
			}
		}
		return out, true
	case nil:
		return nil, true
	}
	return nil, false
}

func bytesVal(b []byte) Value {
	arr := make([]Value, len(b))
	for i, c := range b {
		arr[i] = mkInt(8, uint64(c))
	}
	return Slice{A: &arr, Len: len(arr), Cap: len(arr)}
}

func (e *Engine) sortGeneric(n int, less func(i, j int) bool, swap func(i, j int)) {
	// insertion sort (stable); comparisons may fork on symbolic data
	for i := 1; i < n; i++ {
		for j := i; j > 0 && less(j, j-1); j-- {
			swap(j, j-1)
		}
	}
}

func init() {
	intrinsics["regexp.Compile"] = func(e *Engine, a []Value) Value {
		pat, _ := e.concStrFork(a[0], "")
		re, err := regexp.Compile(pat)
		if err != nil {
			return Tuple{nativeRegexp{}, e.mkError(err.Error())}
		}
		return Tuple{nativeRegexp{re}, Iface{}}
	}
	intrinsics["(*regexp.Regexp).MatchString"] = func(e *Engine, a []Value) Value {
		str, _ := e.concStrFork(a[1], "")
		return Bool{V: a[0].(nativeRegexp).re.MatchString(str)}
	}
	intrinsics["(*regexp.Regexp).Split"] = func(e *Engine, a []Value) Value {
		subj, _ := e.concStrFork(a[1], "")
		parts := a[0].(nativeRegexp).re.Split(subj, int(concI(e, a[2])))
		var ps []Str
		for _, p := range parts {
			ps = append(ps, Str{S: p})
		}
		return strSliceVal(ps)
	}
	intrinsics["regexp.QuoteMeta"] = func(e *Engine, a []Value) Value {
		str, _ := e.concStrFork(a[0], "")
		return Str{S: regexp.QuoteMeta(str)}
	}
	intrinsics["encoding/json.Marshal"] = func(e *Engine, a []Value) Value {
		n, ok := e.nativeOf(a[0])
		if !ok {
			panic(unsupported("json.Marshal of symbolic/unsupported value"))
		}
		b, err := json.Marshal(n)
		if err != nil {
			if ute, ok := err.(*json.UnsupportedTypeError); ok && ute.Type.Kind() == reflect.Map {
				// keep the error's Go type, so that errors.As in the interpreted program finds it
				if jp := e.prog.ImportedPackage("encoding/json"); jp != nil {
					empty := types.NewInterfaceType(nil, nil)
					cell := new(Value)
					*cell = Struct{rtIface(types.NewMap(empty, empty))}
					return Tuple{Slice{Nil: true}, Iface{T: types.NewPointer(jp.Type("UnsupportedTypeError").Type()), V: cell}}
				}
			}
			return Tuple{Slice{Nil: true}, e.mkError(err.Error())}
		}
		return Tuple{bytesVal(b), Iface{}}
	}
	sortSlice := func(e *Engine, a []Value) Value {
		it := a[0].(Iface)
		s, ok := it.V.(Slice)
		if !ok {
			panic(unsupported("sort.Slice of non-slice"))
		}
		less := a[1]
		e.sortGeneric(s.Len, func(i, j int) bool {
			return e.BranchB(e.callFn(less, []Value{mkInt(64, uint64(i)), mkInt(64, uint64(j))}).(Bool))
		}, func(i, j int) {
			(*s.A)[s.Off+i], (*s.A)[s.Off+j] = (*s.A)[s.Off+j], (*s.A)[s.Off+i]
		})
		return nil
	}
	intrinsics["sort.Slice"] = sortSlice
	intrinsics["sort.SliceStable"] = sortSlice
	sortBy := func(cmp func(e *Engine, x, y Value) bool) intrinsic {
		return func(e *Engine, a []Value) Value {
			s := a[0].(Slice)
			e.sortGeneric(s.Len, func(i, j int) bool { return cmp(e, (*s.A)[s.Off+i], (*s.A)[s.Off+j]) },
				func(i, j int) { (*s.A)[s.Off+i], (*s.A)[s.Off+j] = (*s.A)[s.Off+j], (*s.A)[s.Off+i] })
			return nil
		}
	}
	intrinsics["sort.Strings"] = sortBy(func(e *Engine, x, y Value) bool {
		return e.BranchB(e.binop(token.LSS, types.Typ[types.String], x, y).(Bool))
	})
	intrinsics["sort.Ints"] = sortBy(func(e *Engine, x, y Value) bool {
		return e.BranchB(e.intBinop(token.LSS, true, x.(Int), y.(Int)).(Bool))
	})
	intrinsics["sort.Float64s"] = sortBy(func(e *Engine, x, y Value) bool { return x.(Float).V < y.(Float).V })

	// more reflect
	intrinsics["reflect.MakeSlice"] = func(e *Engine, a []Value) Value {
		t := a[0].(Iface).V.(RT).T
		n, c := e.concInt(a[1]), e.concInt(a[2])
		st, ok := t.Underlying().(*types.Slice)
		if !ok {
			e.reflectPanic("reflect.MakeSlice of non-slice type")
		}
		if n < 0 || c < n {
			e.reflectPanic("reflect.MakeSlice: bad len/cap")
		}
		arr := make([]Value, c)
		for i := range arr {
			arr[i] = zero(st.Elem())
		}
		return RV{T: t, V: Slice{A: &arr, Len: n, Cap: c}, Valid: true}
	}
	intrinsics["reflect.MakeMap"] = func(e *Engine, a []Value) Value {
		t := a[0].(Iface).V.(RT).T
		if _, ok := t.Underlying().(*types.Map); !ok {
			e.reflectPanic("reflect.MakeMap of non-map type")
		}
		return RV{T: t, V: newMap(), Valid: true}
	}
	intrinsics["(reflect.Value).SetMapIndex"] = func(e *Engine, a []Value) Value {
		v, k, x := a[0].(RV), a[1].(RV), a[2].(RV)
		if e.rvKind(v) != reflect.Map {
			e.reflectPanic("call of reflect.Value.SetMapIndex on " + e.rvKind(v).String() + " Value")
		}
		mt := v.T.Underlying().(*types.Map)
		if !k.Valid || !types.AssignableTo(k.T, mt.Key()) {
			e.reflectPanic("reflect.Value.SetMapIndex: key not assignable")
		}
		m := v.V.(*MapV)
		if m == nil {
			e.goPanicStr("assignment to entry in nil map")
		}
		if !x.Valid {
			m.delete(k.V)
			return nil
		}
		if !types.AssignableTo(x.T, mt.Elem()) {
			e.reflectPanic("reflect.Value.SetMapIndex: value of type " + x.T.String() + " is not assignable to type " + mt.Elem().String())
		}
		val := x.V
		if _, isI := mt.Elem().Underlying().(*types.Interface); isI {
			if _, xi := x.T.Underlying().(*types.Interface); !xi {
				val = Iface{T: x.T, V: x.V}
			}
		}
		e.mapSet(m, k.V, val)
		return nil
	}
	num := func(name string, kinds ...reflect.Kind) {
		intrinsics["(reflect.Value)."+name] = func(e *Engine, a []Value) Value {
			v := a[0].(RV)
			k := e.rvKind(v)
			for _, kk := range kinds {
				if k == kk {
					switch x := v.V.(type) {
					case Int:
						if name == "Int" {
							return fromTermI(mkSext(64, x.term()))
						}
						return fromTermI(mkZext(64, x.term()))
					case Float:
						return x
					case Bool:
						return x
					}
				}
			}
			e.reflectPanic(fmt.Sprintf("call of reflect.Value.%s on %v Value", name, k))
			return nil
		}
	}
	num("Int", reflect.Int, reflect.Int8, reflect.Int16, reflect.Int32, reflect.Int64)
	num("Uint", reflect.Uint, reflect.Uint8, reflect.Uint16, reflect.Uint32, reflect.Uint64, reflect.Uintptr)
	num("Float", reflect.Float32, reflect.Float64)
	num("Bool", reflect.Bool)
}

// encoding/gob cannot be executed symbolically (reflection and unsafe throughout). Stub, stated as an
// assumption wherever it is used: encoding a node tree fails (twig's nodes have no exported fields, so
// the native encoder fails after the type header as well) and decoding always fails, which makes
// LoadFromCompiled fall back to parsing the stored source — the path the native code takes too.
func init() {
	intrinsics["encoding/gob.NewEncoder"] = func(e *Engine, a []Value) Value {
		c := new(Value)
		*c = Struct{a[0]}
		return c
	}
	intrinsics["encoding/gob.NewDecoder"] = intrinsics["encoding/gob.NewEncoder"]
	intrinsics["(*encoding/gob.Encoder).Encode"] = func(e *Engine, a []Value) Value {
		return e.mkError("gob: stub: type has no exported fields")
	}
	intrinsics["(*encoding/gob.Decoder).Decode"] = func(e *Engine, a []Value) Value {
		return e.mkError("gob: stub: decoding is outside the symbolic model")
	}
}

func init() {
	intrinsics["reflect.SliceOf"] = func(e *Engine, a []Value) Value {
		return rtIface(types.NewSlice(a[0].(Iface).V.(RT).T))
	}
}

// log: output is not part of any property; a Logger is an opaque object and printing is a no-op.
// runtime.Caller (used by the debug helpers for file:line) returns a fixed location.
func init() {
	intrinsics["log.New"] = func(e *Engine, a []Value) Value {
		c := new(Value)
		*c = Struct{}
		return c
	}
	for _, m := range []string{"Printf", "Println", "Print", "Output", "SetOutput", "SetFlags", "SetPrefix", "Fatalf", "Panicf"} {
		intrinsics["(*log.Logger)."+m] = mNop
	}
	intrinsics["(*log.Logger).Output"] = func(e *Engine, a []Value) Value { return Iface{} }
	intrinsics["log.Printf"] = mNop
	intrinsics["log.Println"] = mNop
	intrinsics["runtime.Caller"] = func(e *Engine, a []Value) Value {
		return Tuple{PtrInt{}, Str{S: "/repo/unknown.go"}, mkInt(64, 1), Bool{V: true}}
	}
}

// package time: values are kept in time.Time's own representation (wall, ext, loc) with loc == nil
// (UTC) and no monotonic reading; parsing and formatting are bridged to the native package on
// concrete operands. Assumption stated with every use: the process time zone is UTC.
const unixToInternal int64 = (1969*365 + 1969/4 - 1969/100 + 1969/400) * 86400

func timeVal(t time.Time) Value {
	t = t.UTC()
	return Struct{mkInt(64, uint64(t.Nanosecond())), mkInt(64, uint64(t.Unix()+unixToInternal)), (*Value)(nil)}
}

func (e *Engine) nativeTime(v Value) time.Time {
	s := v.(Struct)
	wall, ext := s[0].(Int), s[1].(Int)
	if wall.T != nil || ext.T != nil {
		panic(unsupported("symbolic time value reaches the native time bridge"))
	}
	if wall.V>>63 != 0 {
		panic(unsupported("time value with a monotonic reading"))
	}
	return time.Unix(int64(ext.V)-unixToInternal, int64(wall.V&(1<<30-1))).UTC()
}

func init() {
	intrinsics["time.Parse"] = func(e *Engine, a []Value) Value {
		layout, _ := e.concStrFork(a[0], "")
		value, _ := e.concStrFork(a[1], "")
		t, err := time.Parse(layout, value)
		if err != nil {
			return Tuple{timeVal(time.Time{}), e.mkError(err.Error())}
		}
		return Tuple{timeVal(t), Iface{}}
	}
	intrinsics["time.Unix"] = func(e *Engine, a []Value) Value {
		if sec := a[0].(Int); sec.T != nil {
			if ns := a[1].(Int); ns.T == nil && ns.V == 0 {
				// symbolic whole seconds: kept as a term in time.Time's own representation
				return Struct{mkInt(64, 0), Int{W: 64, T: mk("bvadd", 64, sec.T, bvConst(64, uint64(unixToInternal)))}, (*Value)(nil)}
			}
		}
		return timeVal(time.Unix(concI(e, a[0]), concI(e, a[1])))
	}
	intrinsics["(time.Time).Format"] = func(e *Engine, a []Value) Value {
		layout, _ := e.concStrFork(a[1], "")
		return Str{S: e.nativeTime(a[0]).Format(layout)}
	}
	for name, f := range map[string]func(time.Time) int{
		"Year": func(t time.Time) int { return t.Year() }, "Day": func(t time.Time) int { return t.Day() },
		"Hour": func(t time.Time) int { return t.Hour() }, "Minute": func(t time.Time) int { return t.Minute() },
		"Second": func(t time.Time) int { return t.Second() }, "Month": func(t time.Time) int { return int(t.Month()) },
		"Nanosecond": func(t time.Time) int { return t.Nanosecond() }, "YearDay": func(t time.Time) int { return t.YearDay() },
		"Weekday": func(t time.Time) int { return int(t.Weekday()) },
	} {
		f := f
		intrinsics["(time.Time)."+name] = func(e *Engine, a []Value) Value { return mkInt(64, uint64(f(e.nativeTime(a[0])))) }
	}
	intrinsics["(time.Time).Unix"] = func(e *Engine, a []Value) Value {
		if ext := a[0].(Struct)[1].(Int); ext.T != nil {
			return Int{W: 64, T: mk("bvsub", 64, ext.T, bvConst(64, uint64(unixToInternal)))}
		}
		return mkInt(64, uint64(e.nativeTime(a[0]).Unix()))
	}
}
