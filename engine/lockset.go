package main

import (
	"fmt"
	"go/types"
	"sort"
	"strings"
)

type access struct {
	loc   string
	write bool
	locks string // sorted "name:mode"
	where string
}

type lockState struct {
	shared     map[*Value]string
	sharedMaps map[*MapV]string
	held       map[heldKey]string // (mutex cell, thread) -> "W" or "R"
	names      map[*Value]string  // mutex cell -> name
	on         bool
}

func (e *Engine) markShared(v Value, t types.Type, path string) {
	if t == nil {
		return
	}
	switch u := t.Underlying().(type) {
	case *types.Pointer:
		p, ok := v.(*Value)
		if !ok || p == nil {
			return
		}
		if _, seen := e.ls.shared[p]; seen {
			return
		}
		e.ls.shared[p] = path
		e.markSharedIn(*p, u.Elem(), path)
	case *types.Interface:
		it, ok := v.(Iface)
		if ok && it.T != nil {
			e.markShared(it.V, it.T, path)
		}
	case *types.Slice:
		s, ok := v.(Slice)
		if !ok || s.Nil || s.A == nil {
			return
		}
		for i := 0; i < s.Len; i++ {
			c := &(*s.A)[s.Off+i]
			if _, seen := e.ls.shared[c]; seen {
				continue
			}
			e.ls.shared[c] = path + "[]"
			e.markSharedIn(*c, u.Elem(), path+"[]")
		}
	case *types.Map:
		m, ok := v.(*MapV)
		if !ok || m == nil {
			return
		}
		if _, seen := e.ls.sharedMaps[m]; seen {
			return
		}
		e.ls.sharedMaps[m] = path
		for i := range m.vals {
			e.markShared(m.vals[i], u.Elem(), path+"[k]")
		}
	case *types.Struct, *types.Array:
		e.markSharedIn(v, t, path)
	}
}

// markSharedIn marks the slots inside a by-value composite.
func (e *Engine) markSharedIn(v Value, t types.Type, path string) {
	switch u := t.Underlying().(type) {
	case *types.Struct:
		s, ok := v.(Struct)
		if !ok {
			return
		}
		if n, ok := t.(*types.Named); ok && n.Obj().Pkg() != nil && n.Obj().Pkg().Path() == "sync" {
			return
		}
		for i := range s {
			f := u.Field(i)
			fp := path + "." + f.Name()
			c := &s[i]
			if _, seen := e.ls.shared[c]; !seen {
				e.ls.shared[c] = fp
			}
			if n, ok := f.Type().(*types.Named); ok && n.Obj().Pkg() != nil && n.Obj().Pkg().Path() == "sync" {
				e.ls.names[c] = fp
				continue
			}
			e.markShared(s[i], f.Type(), fp)
		}
	case *types.Array:
		a, ok := v.(Array)
		if !ok {
			return
		}
		for i := range a {
			e.ls.shared[&a[i]] = path + "[]"
			e.markShared(a[i], u.Elem(), path+"[]")
		}
	case *types.Pointer, *types.Interface, *types.Slice, *types.Map:
		e.markShared(v, t, path)
	}
}

func (e *Engine) lockStr() string {
	var xs []string
	for hk, mode := range e.ls.held {
		if hk.t != e.tid() {
			continue
		}
		m := hk.m
		n := e.ls.names[m]
		if n == "" {
			n = fmt.Sprintf("mutex@%p", m)
		}
		xs = append(xs, n+":"+mode)
	}
	sort.Strings(xs)
	return strings.Join(xs, ",")
}

func (e *Engine) recordAccess(loc string, write bool) {
	a := access{loc: loc, write: write, locks: e.lockStr(), where: e.where()}
	m := e.accesses[loc]
	if m == nil {
		m = map[access]int{}
		e.accesses[loc] = m
	}
	m[a]++
}

func (e *Engine) noteOwnership(p *Value, what string) {
	if e.ls.on && len(e.inPool) > 0 && e.inPool[p] {
		e.reportKind("ownership", what+" of memory already returned to a sync.Pool, in "+e.curFunc(), nil)
	}
}

func (e *Engine) noteLoad(p *Value) {
	e.noteOwnership(p, "read")
	if e.ls.on {
		if loc, ok := e.ls.shared[p]; ok {
			e.recordAccess(loc, false)
		}
	}
}
func (e *Engine) noteStore(p *Value) {
	e.noteOwnership(p, "write")
	if e.ls.on {
		if loc, ok := e.ls.shared[p]; ok {
			e.recordAccess(loc, true)
		}
	}
}
func (e *Engine) noteMap(m *MapV, write bool) {
	if e.ls.on && m != nil {
		if loc, ok := e.ls.sharedMaps[m]; ok {
			e.recordAccess(loc, write)
		}
	}
}

func hasExclusive(a, b string) bool {
	// common lock held, and at least one side... for W/W or R/W conflicts the writer must hold it in W mode
	am := map[string]string{}
	for _, x := range strings.Split(a, ",") {
		if i := strings.LastIndex(x, ":"); i > 0 {
			am[x[:i]] = x[i+1:]
		}
	}
	for _, x := range strings.Split(b, ",") {
		if i := strings.LastIndex(x, ":"); i > 0 {
			if ma, ok := am[x[:i]]; ok {
				if ma == "W" || x[i+1:] == "W" {
					return true
				}
			}
		}
	}
	return false
}

func raceCandidates(allAccesses map[string]map[access]int) []string {
	var out []string
	var locs []string
	for l := range allAccesses {
		locs = append(locs, l)
	}
	sort.Strings(locs)
	for _, l := range locs {
		var ws, all []access
		for a := range allAccesses[l] {
			all = append(all, a)
			if a.write {
				ws = append(ws, a)
			}
		}
		seen := map[string]bool{}
		for _, w := range ws {
			for _, a := range all {
				// conflicting pair (w may race with itself when run concurrently with itself)
				protected := hasExclusive(w.locks, a.locks)
				if w == a {
					protected = strings.Contains(w.locks, ":W")
				}
				if !protected {
					kind := "read"
					if a.write {
						kind = "write"
					}
					k := fmt.Sprintf("RACE-CANDIDATE loc=%s write@%s {%s}  vs %s@%s {%s}", l, w.where, w.locks, kind, a.where, a.locks)
					if !seen[k] {
						seen[k] = true
						out = append(out, k)
					}
				}
			}
		}
	}
	sort.Strings(out)
	return out
}
