package main

import (
	"fmt"
	"go/types"
	"strings"

	"golang.org/x/tools/go/ssa"
)

type Value interface{}

type Int struct {
	W int
	V uint64
	T *Term
}
type Bool struct {
	V bool
	T *Term
}
type Str struct {
	S   string
	Sym []*Term // nil => concrete; else len==len(S), nil entries concrete
}
type Struct []Value
type Array []Value
type Slice struct {
	A             *[]Value
	Off, Len, Cap int
	Nil           bool
}
type Iface struct {
	T types.Type
	V Value
}
type Closure struct {
	Fn  *ssa.Function
	Env []Value
}
type Tuple []Value
type StrPtr struct {
	S   Str
	Off int
}
type PtrInt struct {
	P     Value
	Delta int64
}
type MapV struct {
	keys []Value
	vals []Value
	idx  map[interface{}]int
	del  []bool
	n    int
}
type Float struct{ V float64 }

func (i Int) isC() bool  { return i.T == nil }
func (b Bool) isC() bool { return b.T == nil }
func (i Int) term() *Term {
	if i.T != nil {
		return i.T
	}
	return bvConst(i.W, i.V)
}
func (b Bool) term() *Term {
	if b.T != nil {
		return b.T
	}
	return boolConst(b.V)
}
func mkInt(w int, v uint64) Int { return Int{W: w, V: v & mask(w)} }
func fromTermI(t *Term) Int {
	if t.Op == "bvconst" {
		return Int{W: t.W, V: t.Val}
	}
	return Int{W: t.W, T: t}
}
func fromTermB(t *Term) Bool {
	switch t.Op {
	case "true":
		return Bool{V: true}
	case "false":
		return Bool{V: false}
	}
	return Bool{T: t}
}

func (s Str) Len() int { return len(s.S) }
func (s Str) isC() bool {
	if s.Sym == nil {
		return true
	}
	for _, t := range s.Sym {
		if t != nil {
			return false
		}
	}
	return true
}
func (s Str) byteAt(i int) Int {
	if s.Sym != nil && s.Sym[i] != nil {
		return Int{W: 8, T: s.Sym[i]}
	}
	return Int{W: 8, V: uint64(s.S[i])}
}
func (s Str) slice(lo, hi int) Str {
	r := Str{S: s.S[lo:hi]}
	if s.Sym != nil {
		r.Sym = s.Sym[lo:hi]
		if r.isC() {
			r.Sym = nil
		}
	}
	return r
}
func strConcat(a, b Str) Str {
	r := Str{S: a.S + b.S}
	if a.Sym != nil || b.Sym != nil {
		r.Sym = make([]*Term, len(r.S))
		if a.Sym != nil {
			copy(r.Sym, a.Sym)
		}
		if b.Sym != nil {
			copy(r.Sym[len(a.S):], b.Sym)
		}
	}
	return r
}
func strFromBytes(bs []Int) Str {
	var sb strings.Builder
	var sym []*Term
	for i, b := range bs {
		if b.T != nil {
			if sym == nil {
				sym = make([]*Term, len(bs))
			}
			sym[i] = b.T
			sb.WriteByte('?')
		} else {
			sb.WriteByte(byte(b.V))
		}
	}
	return Str{S: sb.String(), Sym: sym}
}
func strEq(a, b Str) *Term {
	if a.Len() != b.Len() {
		return tFalse
	}
	r := tTrue
	for i := 0; i < a.Len(); i++ {
		r = mkAnd(r, mkEq(a.byteAt(i).term(), b.byteAt(i).term()))
		if r.Op == "false" {
			return r
		}
	}
	return r
}

func newMap() *MapV { return &MapV{idx: map[interface{}]int{}} }

func hashKey(k Value) interface{} {
	switch k := k.(type) {
	case Int:
		if k.T != nil {
			panic(unsupported("symbolic int map key"))
		}
		return [2]uint64{uint64(k.W), k.V}
	case Str:
		if !k.isC() {
			panic(unsupported("symbolic string map key"))
		}
		return k.S
	case Bool:
		return k.V
	case Float:
		return [2]interface{}{"float", k.V}
	case *Value:
		return k
	case Iface:
		return [2]interface{}{typeKey(k.T), hashKey(k.V)}
	case nil:
		return nil
	case RT:
		return "rtype:" + k.T.String()
	case Struct:
		s := "struct{"
		for _, f := range k {
			s += fmt.Sprintf("%v;", hashKey(f))
		}
		return s + "}"
	}
	panic(unsupported(fmt.Sprintf("map key %T", k)))
}

func typeKey(t types.Type) string {
	if t == nil {
		return "<nil>"
	}
	return t.String()
}

func (m *MapV) get(k Value) (Value, bool) {
	i, ok := m.idx[hashKey(k)]
	if !ok {
		return nil, false
	}
	return m.vals[i], true
}
func (m *MapV) set(k, v Value) {
	h := hashKey(k)
	if i, ok := m.idx[h]; ok {
		m.vals[i] = v
		return
	}
	m.idx[h] = len(m.keys)
	m.keys = append(m.keys, k)
	m.vals = append(m.vals, v)
	m.del = append(m.del, false)
	m.n++
}
func (m *MapV) delete(k Value) {
	h := hashKey(k)
	if i, ok := m.idx[h]; ok {
		m.del[i] = true
		delete(m.idx, h)
		m.n--
	}
}

type unsupportedErr struct{ msg string }

func unsupported(m string) unsupportedErr { return unsupportedErr{m} }

func intWidth(t types.Type) (int, bool, bool) { // width, signed, ok
	b, ok := t.Underlying().(*types.Basic)
	if !ok {
		return 0, false, false
	}
	switch b.Kind() {
	case types.Int, types.Int64:
		return 64, true, true
	case types.Int32, types.UntypedRune:
		return 32, true, true
	case types.Int16:
		return 16, true, true
	case types.Int8:
		return 8, true, true
	case types.Uint, types.Uint64, types.Uintptr:
		return 64, false, true
	case types.Uint32:
		return 32, false, true
	case types.Uint16:
		return 16, false, true
	case types.Uint8:
		return 8, false, true
	case types.UntypedInt:
		return 64, true, true
	}
	return 0, false, false
}

func zero(t types.Type) Value {
	if n, ok := t.(*types.Named); ok && n.Obj().Pkg() != nil && n.Obj().Pkg().Path() == "reflect" && n.Obj().Name() == "Value" {
		return RV{}
	}
	switch u := t.Underlying().(type) {
	case *types.Basic:
		if w, _, ok := intWidth(t); ok {
			return Int{W: w}
		}
		switch u.Kind() {
		case types.Bool, types.UntypedBool:
			return Bool{}
		case types.String, types.UntypedString:
			return Str{}
		case types.Float64, types.Float32, types.UntypedFloat:
			return Float{}
		case types.UnsafePointer:
			return (*Value)(nil)
		case types.UntypedNil, types.Invalid:
			return nil
		}
	case *types.Struct:
		s := make(Struct, u.NumFields())
		for i := range s {
			s[i] = zero(u.Field(i).Type())
		}
		return s
	case *types.Array:
		a := make(Array, u.Len())
		for i := range a {
			a[i] = zero(u.Elem())
		}
		return a
	case *types.Pointer:
		return (*Value)(nil)
	case *types.Slice:
		return Slice{Nil: true}
	case *types.Map:
		return (*MapV)(nil)
	case *types.Interface:
		return Iface{}
	case *types.Signature:
		return (*ssa.Function)(nil)
	case *types.Chan:
		return (*ChanV)(nil)
	case *types.Tuple:
		tu := make(Tuple, u.Len())
		for i := range tu {
			tu[i] = zero(u.At(i).Type())
		}
		return tu
	}
	panic(unsupported("zero of " + t.String()))
}

func copyVal(v Value) Value {
	switch v := v.(type) {
	case Struct:
		n := make(Struct, len(v))
		for i, f := range v {
			n[i] = copyVal(f)
		}
		return n
	case Array:
		n := make(Array, len(v))
		for i, f := range v {
			n[i] = copyVal(f)
		}
		return n
	}
	return v
}
