package main

import (
	"fmt"

	"golang.org/x/tools/go/ssa"
)

// Two-thread interleaving exploration (symParallel). The two function values run as two threads of
// the interpreted program; exactly one runs at any time. Control may move from one to the other only
// at synchronisation operations (mutex acquire/release, sync.Map and sync.Pool operations, sync.Once)
// and when a thread blocks or ends. For programs without data races (checked separately by the
// lockset monitor) these are all the interleavings that can be told apart. Whether to switch at a
// synchronisation point is a fresh Boolean decided through the solver like every other branch, so
// schedules are explored by the same decision-vector search as inputs; the number of voluntary
// switches per path is bounded (parameter SW of the harness, default 2).

type thread struct {
	id        int
	resume    chan struct{}
	done      bool
	started   bool
	depth     int
	cur       ssa.Instruction
	stack     []string
	panicking *panicState
	curRange  *ssa.Range
}

type killThread struct{}

type parState struct {
	th        [2]*thread
	cur       int
	switches  int
	max       int
	abort     interface{} // panic value to be re-raised on the main goroutine
	kill      bool
	killed    chan struct{}
	log       []byte
	poolYield bool
	blocked   map[int]bool
}

type mutexSt struct {
	writer  int // thread id + 1, 0 = none
	readers map[int]int
	waitW   map[int]bool // threads blocked in Lock: sync.RWMutex lets no new reader in while a writer waits
}

func (e *Engine) tid() int {
	if e.par == nil {
		return 0
	}
	return e.par.cur
}

func (e *Engine) saveTLS(t *thread) {
	t.depth, t.cur, t.stack, t.panicking, t.curRange = e.depth, e.cur, e.stack, e.panicking, e.curRange
}
func (e *Engine) loadTLS(t *thread) {
	e.depth, e.cur, e.stack, e.panicking, e.curRange = t.depth, t.cur, t.stack, t.panicking, t.curRange
}

// switchTo hands control to the other thread and returns when this thread is scheduled again.
func (e *Engine) switchTo(other *thread) {
	p := e.par
	me := p.th[p.cur]
	e.saveTLS(me)
	p.cur = other.id
	p.log = append(p.log, byte('0'+other.id))
	other.resume <- struct{}{}
	<-me.resume
	if p.kill && me.id == 1 {
		panic(killThread{})
	}
	if p.abort != nil && me.id == 0 {
		r := p.abort
		p.abort = nil
		e.loadTLS(me)
		panic(r)
	}
	e.loadTLS(me)
}

// yield: a point at which the other thread may run. Voluntary switches are bounded.
func (e *Engine) yield() {
	p := e.par
	if p == nil {
		return
	}
	other := p.th[1-p.cur]
	if other.done || p.switches >= p.max || e.vector != nil {
		return // (concrete replays inside the engine use the serial schedule)
	}
	if e.Branch(e.newAux("sched")) {
		p.switches++
		e.switchTo(other)
	}
}

func (e *Engine) newAux(hint string) *Term {
	e.auxN++
	return mkVar(fmt.Sprintf("%s%d_0", hint, e.auxN), 0)
}

// block: the running thread cannot proceed until the other one releases something.
func (e *Engine) blockOn(what string) {
	p := e.par
	if p == nil {
		e.reportKind("deadlock", "self-deadlock: "+what+" in "+e.curFunc(), nil)
		panic(pathEnd{"violation-deadlock", what})
	}
	other := p.th[1-p.cur]
	if other.done || p.blocked[other.id] {
		e.reportKind("deadlock", "deadlock: "+what+" in "+e.curFunc(), nil)
		panic(pathEnd{"violation-deadlock", what})
	}
	p.blocked[p.cur] = true
	e.switchTo(other)
	p.blocked[p.cur] = false
}

func (e *Engine) mutexOf(m *Value) *mutexSt {
	st := e.mutexes[m]
	if st == nil {
		st = &mutexSt{readers: map[int]int{}, waitW: map[int]bool{}}
		e.mutexes[m] = st
	}
	return st
}

func (e *Engine) mLock(m *Value, write bool) {
	e.yield()
	me := e.tid()
	for {
		st := e.mutexOf(m)
		otherReaders := 0
		for t, n := range st.readers {
			if t != me {
				otherReaders += n
			}
		}
		busy := st.writer != 0 && st.writer != me+1 || write && otherReaders > 0
		if !write {
			// a writer that is already waiting keeps new readers out, also a goroutine that read-locks again
			for t := range st.waitW {
				if t != me {
					busy = true
				}
			}
		}
		if st.writer == me+1 || write && st.readers[me] > 0 {
			// the same goroutine locks again: Go's mutexes are not reentrant
			e.blockOn("lock of a mutex this goroutine already holds")
			continue
		}
		if !busy {
			if write {
				st.writer = me + 1
				delete(st.waitW, me)
			} else {
				st.readers[me]++
			}
			break
		}
		if write {
			st.waitW[me] = true
		}
		e.blockOn("lock of a held mutex")
	}
	mode := "R"
	if write {
		mode = "W"
	}
	e.ls.held[heldKey{m, me}] = mode
}

func (e *Engine) mUnlock(m *Value, write bool) {
	me := e.tid()
	st := e.mutexOf(m)
	if write {
		if st.writer == 0 {
			e.goPanicStr("fatal error: sync: Unlock of unlocked RWMutex")
		}
		st.writer = 0
	} else {
		if st.readers[me] > 0 {
			st.readers[me]--
		} else {
			e.goPanicStr("fatal error: sync: RUnlock of unlocked RWMutex")
		}
	}
	if st.writer == 0 && st.readers[me] == 0 {
		delete(e.ls.held, heldKey{m, me})
	}
	e.yield()
}

type heldKey struct {
	m *Value
	t int
}

// mParallel implements symParallel(f, g).
func mParallel(e *Engine, a []Value) Value {
	if e.par != nil {
		panic(unsupported("nested symParallel"))
	}
	max := 2
	if v, ok := e.params["SW"]; ok {
		max = int(v)
	}
	p := &parState{max: max, killed: make(chan struct{}), blocked: map[int]bool{}}
	if v, ok := e.params["POOLYIELD"]; ok && v != 0 {
		p.poolYield = true
	}
	p.th[0] = &thread{id: 0, resume: make(chan struct{}), started: true}
	p.th[1] = &thread{id: 1, resume: make(chan struct{})}
	e.saveTLS(p.th[0])
	p.th[1].depth, p.th[1].stack = e.depth, append([]string{}, e.stack...)
	e.par = p
	f, g := a[0], a[1]
	// which function the main goroutine runs first is a schedule decision as well
	if e.vector == nil && e.Branch(e.newAux("first")) {
		f, g = g, f
		p.log = append(p.log, 'x')
	}
	go func() {
		t := p.th[1]
		<-t.resume
		defer func() {
			r := recover()
			t.done = true
			if _, isKill := r.(killThread); isKill || p.kill {
				close(p.killed)
				return
			}
			if r != nil {
				p.abort = r
			}
			p.cur = 0
			p.log = append(p.log, '0')
			p.th[0].resume <- struct{}{}
		}()
		if p.kill {
			panic(killThread{})
		}
		t.started = true
		e.loadTLS(t)
		e.callFn(g, nil)
	}()
	e.callFn(f, nil)
	// the main goroutine's function is finished: the other runs to its end
	p.th[0].done = true
	for !p.th[1].done {
		e.switchTo(p.th[1])
	}
	e.par = nil
	e.schedLog = string(p.log)
	return nil
}

// endThreads is called when a path ends while a second thread may still be suspended: its goroutine
// is woken up to unwind and exit.
func (e *Engine) endThreads() {
	p := e.par
	if p == nil {
		return
	}
	e.par = nil
	e.schedLog = string(p.log)
	t := p.th[1]
	if t.done {
		return
	}
	p.kill = true
	t.resume <- struct{}{}
	<-p.killed
}
