package main

import (
	"fmt"
	"go/constant"
	"go/token"
	"go/types"
	"math"
	"strconv"
	"strings"
	"time"
	"unicode/utf8"

	"golang.org/x/tools/go/ssa"
)

type pathEnd struct {
	kind string // "ok","violation","panic","fuel","unsupported","infeasible"
	msg  string
}

type goPanic struct{ v Value }

type Engine struct {
	prog    *ssa.Program
	pkg     *ssa.Package
	solver  *Solver
	prefix  []Decision
	trace   []Decision
	pending [][]Decision
	pc      []*Term
	symN    int
	symVars []*Term
	globals map[*ssa.Global]*Value
	parent  map[*Value]parentInfo
	steps   int
	fuel    int
	sizes   types.Sizes
	// stats
	paths, forks, violations int
	covered                  map[string]int
	funcsSeen                map[string]int
	violationsList           []string
	pools                    map[*Value][]Value // pool object -> stack
	depth                    int
	batch                    bool
	vector                   []uint64
	vecPos                   int
	observed                 []string
	tags                     []string
	found                    map[string]*Violation
	accesses                 map[string]map[access]int
	unwind                   int
	symbolicSeen             bool
	ls                       lockState
	readonly                 map[*Value]string
	roMaps                   map[*MapV]string
	mapAdversary             bool
	onceDone                 map[*Value]bool
	mergeOn, speculative     bool
	merges                   int
	cur                      ssa.Instruction
	clock                    int64
	stack                    []string
	byteBacking              map[*Value]Slice
	pathCover                []string
	stdSeen, modelsSeen      map[string]int
	inPool                   map[*Value]bool
	params                   map[string]int64
	panicsReport             bool
	maxDepth                 int
	deadline                 time.Time
	enumForks, enumForksPath int
	maxUnwindSeen            int
	concretizations          int
	poolModel                int
	panicking                *panicState
	initRan                  map[*ssa.Package]bool
	initStoreCache           map[*ssa.Package]map[*ssa.Global]bool
	lazyInit                 int
	copyCells                map[*Value]bool
	cellArr                  map[*Value]cellInfo
	unwindIn                 map[*ssa.Function]int
	curRange                 *ssa.Range
	poolPrivate              map[*Value]Value
	syncMaps                 map[*Value]*MapV
	solverAlt                string
	strViews                 map[*Value]bool
	fs                       map[string]*fsNode
	fsTmpN                   int
	par                      *parState
	mutexes                  map[*Value]*mutexSt
	auxN                     int
	schedLog                 string
	orderFree                map[*ssa.Range]bool
}

// Packages whose initialiser is executed from source (lazily, on the first access to one of their
// package-level variables). Initialisers of all other packages are skipped; reading a variable that
// such a skipped initialiser would have set ends the path as unsupported instead of silently
// reading a zero value.
var initAllow = map[string]bool{"html": true, "unicode/utf8": true, "unicode": true, "strconv": true, "strings": true,
	"bytes": true, "io": true, "errors": true, "sort": true, "slices": true, "math": true, "math/bits": true,
	"path": true, "path/filepath": true, "unicode/utf16": true, "encoding/binary": true, "io/fs": true, "net/url": true,
	"math/rand": true}

// package-level variables of skipped initialisers that may be read as their zero value (the engine
// models or never dereferences them)
var zeroGlobals = map[string]bool{"os.Stderr": true, "os.Stdout": true, "os.Stdin": true}

// initStores: the package-level variables a package's initialiser assigns.
func (e *Engine) initStores(p *ssa.Package) map[*ssa.Global]bool {
	if m, ok := e.initStoreCache[p]; ok {
		return m
	}
	m := map[*ssa.Global]bool{}
	seen := map[*ssa.Function]bool{}
	var scan func(f *ssa.Function)
	var root func(v ssa.Value) *ssa.Global
	root = func(v ssa.Value) *ssa.Global {
		switch v := v.(type) {
		case *ssa.Global:
			return v
		case *ssa.FieldAddr:
			return root(v.X)
		case *ssa.IndexAddr:
			return root(v.X)
		}
		return nil
	}
	scan = func(f *ssa.Function) {
		if f == nil || seen[f] || f.Pkg != p {
			return
		}
		seen[f] = true
		for _, b := range f.Blocks {
			for _, ins := range b.Instrs {
				switch ins := ins.(type) {
				case *ssa.Store:
					if g := root(ins.Addr); g != nil {
						m[g] = true
					}
				case *ssa.MapUpdate:
					if u, ok := ins.Map.(*ssa.UnOp); ok {
						if g := root(u.X); g != nil {
							m[g] = true
						}
					}
				case *ssa.Call:
					if callee := ins.Call.StaticCallee(); callee != nil && strings.HasPrefix(callee.Name(), "init#") {
						scan(callee)
					}
				}
			}
		}
	}
	scan(p.Func("init"))
	e.initStoreCache[p] = m
	return m
}

type cellInfo struct {
	arr *[]Value
	idx int
}

type parentInfo struct {
	cell *Value
	idx  int
}

type Frame struct {
	fn      *ssa.Function
	locals  map[ssa.Value]Value
	block   *ssa.BasicBlock
	prev    *ssa.BasicBlock
	defers  []func()
	result  Value
	phiDone bool
	visits  map[*ssa.BasicBlock]int
}

func (e *Engine) newSym(w int, hint string) *Term {
	e.symbolicSeen = true
	name := fmt.Sprintf("s%d_%d", e.symN, w)
	e.symN++
	t := mkVar(name, w)
	e.symVars = append(e.symVars, t)
	return t
}

func (e *Engine) assume(c *Term) {
	if c.Op == "true" {
		return
	}
	e.pc = append(e.pc, c)
	e.solver.Assert(c)
}

// Decision is one entry of a path's decision vector. A path is re-executed from the start by
// following its vector, so every decision must be reproducible independently of the solver's state:
// branches record the side taken, concretizations record the value chosen (never "the model the
// solver happens to return now").
type Decision struct {
	Kind int      // 0 branch, 1 concretized to Val, 2 "pick a value not in Excl"
	Val  uint64   // branch: 0/1 ; kind 1: the value
	Excl []uint64 // values already explored by sibling paths at this point
}

// Branch decides a symbolic condition, forking as needed.
func (e *Engine) Branch(c *Term) bool {
	switch c.Op {
	case "true":
		return true
	case "false":
		return false
	}
	if e.speculative {
		panic(specAbort{})
	}
	idx := len(e.trace)
	if idx < len(e.prefix) {
		d := e.prefix[idx]
		if d.Kind != 0 {
			panic("decision vector out of sync: branch expected")
		}
		e.trace = append(e.trace, d)
		if d.Val == 1 {
			e.assume(c)
		} else {
			e.assume(mkNot(c))
		}
		return d.Val == 1
	}
	rt := e.solver.Check(c)
	var rf string
	if rt == "unsat" {
		rf = "sat"
	} else {
		rf = e.solver.Check(mkNot(c))
	}
	switch {
	case rt != "unsat" && rf != "unsat":
		e.forks++
		alt := append(append([]Decision{}, e.trace...), Decision{Val: 0})
		e.pending = append(e.pending, alt)
		e.trace = append(e.trace, Decision{Val: 1})
		e.assume(c)
		return true
	case rt != "unsat":
		e.trace = append(e.trace, Decision{Val: 1})
		e.assume(c)
		return true
	default:
		e.trace = append(e.trace, Decision{Val: 0})
		e.assume(mkNot(c))
		return false
	}
}

func (e *Engine) BranchB(b Bool) bool {
	if b.T == nil {
		return b.V
	}
	return e.Branch(b.T)
}

// Concretize makes a symbolic int concrete by forking over its feasible values. Each value is one
// path; the sibling path "some value not yet taken" is queued with the list of taken values.
func (e *Engine) Concretize(i Int) uint64 {
	if i.T == nil {
		return i.V
	}
	if e.speculative {
		panic(specAbort{})
	}
	idx := len(e.trace)
	var excl []uint64
	if idx < len(e.prefix) {
		d := e.prefix[idx]
		switch d.Kind {
		case 1:
			e.trace = append(e.trace, d)
			e.assume(mkEq(i.T, bvConst(i.W, d.Val)))
			return d.Val
		case 2:
			excl = d.Excl
		default:
			panic("decision vector out of sync: concretization expected")
		}
	}
	if len(excl) > 300 {
		panic(unsupported("concretization of a symbolic integer enumerated more than 300 values"))
	}
	for _, x := range excl {
		e.assume(mkNot(mkEq(i.T, bvConst(i.W, x))))
	}
	v, ok := e.solver.Eval(nil, i.T)
	if !ok {
		if len(excl) > 0 {
			panic(pathEnd{"infeasible", "concretize: all values taken"})
		}
		panic(pathEnd{"infeasible", "concretize: solver says " + e.solver.Check(nil) + " for the path condition at " + e.where()})
	}
	eq := mkEq(i.T, bvConst(i.W, v))
	if e.solver.Check(mkNot(eq)) != "unsat" {
		e.forks++
		nx := append(append([]uint64{}, excl...), v)
		alt := append(append([]Decision{}, e.trace...), Decision{Kind: 2, Excl: nx})
		e.pending = append(e.pending, alt)
	}
	e.trace = append(e.trace, Decision{Kind: 1, Val: v})
	e.assume(eq)
	return v
}

// allocLen: length operand of make. A symbolic length is enumerated up to allocSymMax; paths that ask
// for more are cut (the allocation itself succeeds natively up to the address space, so nothing is
// asserted about them — they are outside the bound and counted).
const allocSymMax = 48

func (e *Engine) allocLen(v Value, t types.Type) int {
	i := v.(Int)
	_, signed, _ := intWidth(t)
	if i.T == nil {
		if signed {
			return int(signExt(i.V, i.W))
		}
		if i.V > 1<<40 {
			return 1 << 40
		}
		return int(i.V)
	}
	var x *Term
	if signed {
		x = mkSext(64, i.T)
		if i.W == 64 {
			x = i.T
		}
		if e.Branch(mk("bvslt", 0, x, bvConst(64, 0))) {
			return -1
		}
	} else {
		x = mkZext(64, i.T)
		if i.W == 64 {
			x = i.T
		}
	}
	if !e.Branch(mk("bvule", 0, x, bvConst(64, allocSymMax))) {
		panic(unsupported("symbolic allocation length above " + strconv.Itoa(allocSymMax)))
	}
	return int(e.Concretize(i))
}

func (e *Engine) concInt(v Value) int {
	i := v.(Int)
	u := e.Concretize(i)
	return int(signExt(u, i.W))
}

func signExt(v uint64, w int) int64 {
	if w < 64 && v&(1<<uint(w-1)) != 0 {
		v |= ^mask(w)
	}
	return int64(v)
}

func (e *Engine) global(g *ssa.Global) *Value {
	if p, ok := e.globals[g]; ok {
		return p
	}
	if gp := g.Pkg; gp != nil && gp != e.pkg && !e.initRan[gp] && g.Name() != "init$guard" {
		if e.initStores(gp)[g] && !zeroGlobals[g.String()] {
			if !initAllow[gp.Pkg.Path()] {
				panic(unsupported("read of " + g.String() + ": the initialiser of package " + gp.Pkg.Path() + " is not executed by the engine"))
			}
			e.initRan[gp] = true
			saveCur := e.cur
			e.runInit(gp)
			e.cur = saveCur
			if p, ok := e.globals[g]; ok {
				return p
			}
		}
	}
	p := new(Value)
	*p = zero(g.Type().(*types.Pointer).Elem())
	e.globals[g] = p
	return p
}

// runInit executes a package initialiser. Initialisers of its imports are not run from here (they
// run lazily when one of their variables is touched).
func (e *Engine) runInit(p *ssa.Package) {
	f := p.Func("init")
	if f == nil || f.Blocks == nil {
		return
	}
	e.lazyInit++
	defer func() { e.lazyInit-- }()
	e.callBody(f, nil, nil)
}

func (e *Engine) constVal(c *ssa.Const) Value {
	t := c.Type()
	if c.Value == nil {
		return zero(t)
	}
	if w, _, ok := intWidth(t); ok {
		if i, ok2 := constant.Int64Val(constant.ToInt(c.Value)); ok2 {
			return mkInt(w, uint64(i))
		}
		u, _ := constant.Uint64Val(constant.ToInt(c.Value))
		return mkInt(w, u)
	}
	switch b := t.Underlying().(type) {
	case *types.Basic:
		switch {
		case b.Info()&types.IsBoolean != 0:
			return Bool{V: constant.BoolVal(c.Value)}
		case b.Info()&types.IsString != 0:
			return Str{S: constant.StringVal(c.Value)}
		case b.Info()&types.IsFloat != 0:
			f, _ := constant.Float64Val(c.Value)
			return Float{f}
		}
	}
	panic(unsupported("const " + c.String()))
}

func (e *Engine) get(fr *Frame, v ssa.Value) Value {
	switch v := v.(type) {
	case *ssa.Const:
		return e.constVal(v)
	case *ssa.Global:
		return e.global(v)
	case *ssa.Function:
		return v
	case *ssa.Builtin:
		return v
	}
	if r, ok := fr.locals[v]; ok {
		return r
	}
	panic(fmt.Sprintf("get: no value for %s (%T) in %s", v.Name(), v, fr.fn))
}

func storeInto(addr *Value, v Value) {
	switch cur := (*addr).(type) {
	case Struct:
		if nv, ok := v.(Struct); ok && len(nv) == len(cur) {
			for i := range cur {
				storeInto(&cur[i], nv[i])
			}
			return
		}
	case Array:
		if nv, ok := v.(Array); ok && len(nv) == len(cur) {
			for i := range cur {
				storeInto(&cur[i], nv[i])
			}
			return
		}
	}
	*addr = copyVal(v)
}

func (e *Engine) goPanicStr(s string) {
	panic(goPanic{Iface{T: types.Typ[types.String], V: Str{S: s}}})
}

func (e *Engine) callFn(fnv Value, args []Value) Value {
	switch f := fnv.(type) {
	case intrinsic:
		return f(e, args)
	case *ssa.Function:
		if f == nil {
			e.goPanicStr("call of nil func")
		}
		return e.call(f, args, nil)
	case *Closure:
		return e.call(f.Fn, args, f.Env)
	case *ssa.Builtin:
		return e.builtin(f, args, nil)
	}
	panic(unsupported(fmt.Sprintf("call of %T", fnv)))
}

func (e *Engine) call(fn *ssa.Function, args []Value, env []Value) Value {
	name := fn.String()
	if in, ok := intrinsics[name]; ok {
		if !strings.HasPrefix(name, twigPkg+"sym") {
			e.modelsSeen[name]++
		}
		return in(e, args)
	}
	if fn.Name() == "init" && fn.Pkg != e.pkg && fn.Synthetic != "" {
		return nil // initialisers of other packages run lazily, see global()
	}
	return e.callBody(fn, args, env)
}

func (e *Engine) callBody(fn *ssa.Function, args []Value, env []Value) Value {
	name := fn.String()
	e.stack = append(e.stack, name)
	if fn.Blocks == nil {
		panic(unsupported("no body: " + name))
	}
	e.depth++
	if e.depth > e.maxDepth {
		panic(pathEnd{"fuel", "call depth " + strconv.Itoa(e.maxDepth) + " exceeded in " + name})
	}
	if fn.Pkg == e.pkg {
		e.funcsSeen[name]++
	} else {
		e.stdSeen[name]++
	}
	fr := &Frame{fn: fn, locals: make(map[ssa.Value]Value, 32)}
	for i, p := range fn.Params {
		fr.locals[p] = args[i]
	}
	for i, fv := range fn.FreeVars {
		fr.locals[fv] = env[i]
	}
	fr.block = fn.Blocks[0]
	callSite := e.cur
	res := e.runFrame(fr)
	e.cur = callSite
	e.depth--
	e.stack = e.stack[:len(e.stack)-1]
	return res
}

type panicState struct {
	v         Value
	recovered bool
}

func (e *Engine) runFrame(fr *Frame) (result Value) {
	defer func() {
		if len(fr.defers) == 0 {
			return
		}
		r := recover()
		if r == nil {
			return
		}
		gp, isGo := r.(goPanic)
		if !isGo {
			// engine-level abort of the path: no user code runs any more
			fr.defers = nil
			panic(r)
		}
		prev := e.panicking
		ps := &panicState{v: gp.v}
		e.panicking = ps
		for len(fr.defers) > 0 {
			d := fr.defers[len(fr.defers)-1]
			fr.defers = fr.defers[:len(fr.defers)-1]
			d()
		}
		e.panicking = prev
		if !ps.recovered {
			panic(r)
		}
		if fr.fn.Recover != nil {
			fr.block = fr.fn.Recover
			fr.prev = nil
			fr.phiDone = false
			result = e.execFrame(fr)
			return
		}
		rs := fr.fn.Signature.Results()
		switch rs.Len() {
		case 0:
			result = nil
		case 1:
			result = zero(rs.At(0).Type())
		default:
			result = zero(rs)
		}
	}()
	return e.execFrame(fr)
}

func (e *Engine) execFrame(fr *Frame) (result Value) {
	for {
		blk := fr.block
		if e.symbolicSeen {
			if fr.visits == nil {
				fr.visits = map[*ssa.BasicBlock]int{}
			}
			fr.visits[blk]++
			if fr.visits[blk] > e.maxUnwindSeen {
				e.maxUnwindSeen = fr.visits[blk]
			}
			if lim, ok := e.unwindIn[fr.fn]; ok && fr.visits[blk] > lim {
				panic(pathEnd{"fuel", fmt.Sprintf("unwinding bound %d exceeded in %s [%s]", lim, fr.fn, e.prog.Fset.Position(blk.Instrs[0].Pos()))})
			}
			if fr.visits[blk] > e.unwind {
				panic(pathEnd{"fuel", fmt.Sprintf("unwinding bound %d exceeded in %s [%s]", e.unwind, fr.fn, e.prog.Fset.Position(blk.Instrs[0].Pos()))})
			}
		}
		var next *ssa.BasicBlock
	instrs:
		for _, ins := range blk.Instrs {
			e.steps++
			e.cur = ins
			if e.steps > e.fuel {
				panic(pathEnd{"fuel", "steps"})
			}
			if e.steps&0xfff == 0 && !e.deadline.IsZero() && time.Now().After(e.deadline) {
				panic(pathEnd{"timeout", "wall budget"})
			}
			switch ins := ins.(type) {
			case *ssa.Phi:
				if fr.phiDone {
					continue
				}
				for i, p := range blk.Preds {
					if p == fr.prev {
						fr.locals[ins] = e.get(fr, ins.Edges[i])
						break
					}
				}
			case *ssa.If:
				c := e.get(fr, ins.Cond).(Bool)
				if c.T != nil && e.mergeOn && !e.speculative {
					if j := e.tryMerge(fr, blk, c.T); j != nil {
						e.merges++
						next = j
						fr.prev = nil
						fr.block = next
						fr.phiDone = true
						goto nextBlock
					}
				}
				if e.BranchB(c) {
					next = blk.Succs[0]
				} else {
					next = blk.Succs[1]
				}
				break instrs
			case *ssa.Jump:
				next = blk.Succs[0]
				break instrs
			case *ssa.Return:
				switch len(ins.Results) {
				case 0:
					return nil
				case 1:
					return e.get(fr, ins.Results[0])
				}
				t := make(Tuple, len(ins.Results))
				for i, r := range ins.Results {
					t[i] = e.get(fr, r)
				}
				return t
			case *ssa.RunDefers:
				for len(fr.defers) > 0 {
					d := fr.defers[len(fr.defers)-1]
					fr.defers = fr.defers[:len(fr.defers)-1]
					d()
				}
			case *ssa.Panic:
				panic(goPanic{e.get(fr, ins.X)})
			case *ssa.Send:
				c, _ := e.get(fr, ins.Chan).(*ChanV)
				e.chanSend(c, e.get(fr, ins.X), true)
			case *ssa.Store:
				addr := e.get(fr, ins.Addr)
				e.store(addr, e.get(fr, ins.Val))
			case *ssa.MapUpdate:
				m := e.get(fr, ins.Map).(*MapV)
				if m == nil {
					e.goPanicStr("assignment to entry in nil map")
				}
				e.noteMap(m, true)
				if lbl, ok := e.roMaps[m]; ok {
					e.reportKind("frame", "map update of read-only "+lbl+" at "+e.where(), nil)
				}
				e.mapSet(m, e.get(fr, ins.Key), copyVal(e.get(fr, ins.Value)))
			case *ssa.Defer:
				fnv, args := e.prepareCall(fr, &ins.Call)
				fr.defers = append(fr.defers, func() { e.callFn(fnv, args) })
			case *ssa.DebugRef:
			case ssa.Value:
				fr.locals[ins] = e.eval(fr, ins)
			default:
				panic(unsupported(fmt.Sprintf("instr %T", ins)))
			}
		}
		if next == nil {
			panic("fell off block")
		}
		fr.prev = blk
		fr.block = next
		fr.phiDone = false
	nextBlock:
	}
}

type specAbort struct{}

// specBlock executes a block speculatively (no side effects allowed); returns false if impure.
func (e *Engine) specBlock(fr *Frame, b *ssa.BasicBlock, overlay map[ssa.Value]Value) (ok bool) {
	e.speculative = true
	saved := fr.locals
	// overlay lookup: copy-on-write view
	view := make(map[ssa.Value]Value, len(saved)+8)
	for k, v := range saved {
		view[k] = v
	}
	fr.locals = view
	defer func() {
		e.speculative = false
		fr.locals = saved
		if r := recover(); r != nil {
			if _, isAbort := r.(specAbort); isAbort {
				ok = false
				return
			}
			if _, isGo := r.(goPanic); isGo {
				ok = false
				return
			}
			panic(r)
		}
	}()
	for _, ins := range b.Instrs {
		switch ins := ins.(type) {
		case *ssa.Jump:
		case *ssa.DebugRef:
		case *ssa.BinOp, *ssa.UnOp, *ssa.Convert, *ssa.ChangeType, *ssa.Field, *ssa.Extract, *ssa.Index, *ssa.Lookup, *ssa.FieldAddr, *ssa.IndexAddr:
			if u, isU := ins.(*ssa.UnOp); isU && u.Op == token.ARROW {
				return false
			}
			v := e.eval(fr, ins.(ssa.Value))
			view[ins.(ssa.Value)] = v
			overlay[ins.(ssa.Value)] = v
		default:
			return false
		}
	}
	return true
}

func (e *Engine) iteVal(c *Term, a, b Value) (Value, bool) {
	switch a := a.(type) {
	case Int:
		bb, ok := b.(Int)
		if !ok || bb.W != a.W {
			return nil, false
		}
		return fromTermI(mkIte(c, a.term(), bb.term())), true
	case Bool:
		bb, ok := b.(Bool)
		if !ok {
			return nil, false
		}
		return fromTermB(mkIte(c, a.term(), bb.term())), true
	case Str:
		bb, ok := b.(Str)
		if !ok || bb.Len() != a.Len() {
			return nil, false
		}
		bs := make([]Int, a.Len())
		for i := range bs {
			bs[i] = fromTermI(mkIte(c, a.byteAt(i).term(), bb.byteAt(i).term()))
		}
		return strFromBytes(bs), true
	}
	return nil, false
}

// tryMerge if-converts triangles and diamonds with pure arms. Returns the join block with phis computed.
func (e *Engine) tryMerge(fr *Frame, blk *ssa.BasicBlock, c *Term) *ssa.BasicBlock {
	T, F := blk.Succs[0], blk.Succs[1]
	var join *ssa.BasicBlock
	var armT, armF *ssa.BasicBlock // nil arm = direct edge from blk
	switch {
	case len(T.Preds) == 1 && len(T.Succs) == 1 && T.Succs[0] == F && len(F.Preds) == 2:
		join, armT = F, T
	case len(F.Preds) == 1 && len(F.Succs) == 1 && F.Succs[0] == T && len(T.Preds) == 2:
		join, armF = T, F
	case len(T.Preds) == 1 && len(F.Preds) == 1 && len(T.Succs) == 1 && len(F.Succs) == 1 && T.Succs[0] == F.Succs[0] && len(T.Succs[0].Preds) == 2:
		join, armT, armF = T.Succs[0], T, F
	default:
		return nil
	}
	ovT, ovF := map[ssa.Value]Value{}, map[ssa.Value]Value{}
	if armT != nil && !e.specBlock(fr, armT, ovT) {
		return nil
	}
	if armF != nil && !e.specBlock(fr, armF, ovF) {
		return nil
	}
	predT, predF := blk, blk
	if armT != nil {
		predT = armT
	}
	if armF != nil {
		predF = armF
	}
	getIn := func(v ssa.Value, ov map[ssa.Value]Value) Value {
		if r, ok := ov[v]; ok {
			return r
		}
		return e.get(fr, v)
	}
	res := map[ssa.Value]Value{}
	for _, ins := range join.Instrs {
		phi, ok := ins.(*ssa.Phi)
		if !ok {
			break
		}
		var vT, vF Value
		for i, p := range join.Preds {
			if p == predT {
				vT = getIn(phi.Edges[i], ovT)
			}
			if p == predF {
				vF = getIn(phi.Edges[i], ovF)
			}
		}
		m, ok := e.iteVal(c, vT, vF)
		if !ok {
			return nil
		}
		res[phi] = m
	}
	for k, v := range res {
		fr.locals[k] = v
	}
	return join
}

func (e *Engine) where() string {
	if e.cur == nil {
		return ""
	}
	return fmt.Sprintf("%s [%s]", e.cur.Parent(), e.prog.Fset.Position(e.cur.Pos()))
}

func (e *Engine) checkWrite(a *Value) {
	if lbl, ok := e.readonly[a]; ok {
		e.reportKind("frame", "write into read-only "+lbl+" at "+e.where(), nil)
	}
}

func (e *Engine) markReadonly(v Value, lbl string) {
	switch v := v.(type) {
	case *Value:
		if v == nil {
			return
		}
		if _, seen := e.readonly[v]; seen {
			return
		}
		e.readonly[v] = lbl
		e.markSlots(*v, lbl)
	case Iface:
		e.markReadonly(v.V, lbl)
	case Slice:
		if v.Nil || v.A == nil {
			return
		}
		for i := 0; i < v.Cap && v.Off+i < len(*v.A); i++ {
			e.markReadonly(&(*v.A)[v.Off+i], lbl)
		}
	case *MapV:
		if v == nil {
			return
		}
		if _, seen := e.roMaps[v]; seen {
			return
		}
		e.roMaps[v] = lbl
		for i := range v.keys {
			e.markReadonly(v.keys[i], lbl)
			e.markReadonly(v.vals[i], lbl)
		}
	case *Closure:
		if v != nil {
			for _, x := range v.Env {
				e.markReadonly(x, lbl)
			}
		}
	case Struct, Array:
		e.markSlots(v, lbl)
	}
}

func (e *Engine) markSlots(v Value, lbl string) {
	switch v := v.(type) {
	case Struct:
		for i := range v {
			e.markReadonly(&v[i], lbl)
		}
	case Array:
		for i := range v {
			e.markReadonly(&v[i], lbl)
		}
	default:
		e.markReadonly(v, lbl)
	}
}

func (e *Engine) store(addr Value, v Value) {
	switch a := addr.(type) {
	case *Value:
		if a == nil {
			e.goPanicStr("nil pointer dereference (store)")
		}
		if len(e.readonly) > 0 {
			e.checkWrite(a)
		}
		if e.copyCells[a] {
			panic(unsupported("store through a symbolic index"))
		}
		if len(e.strViews) > 0 {
			e.checkStrView(a)
		}
		e.noteStore(a)
		storeInto(a, v)
	default:
		panic(unsupported(fmt.Sprintf("store to %T", addr)))
	}
}

func (e *Engine) load(addr Value) Value {
	switch a := addr.(type) {
	case *Value:
		if a == nil {
			e.goPanicStr("nil pointer dereference")
		}
		e.noteLoad(a)
		return copyVal(*a)
	case StrPtr:
		if a.Off < 0 || a.Off >= a.S.Len() {
			panic(pathEnd{"violation", fmt.Sprintf("unsafe read outside string data: off=%d len=%d", a.Off, a.S.Len())})
		}
		return a.S.byteAt(a.Off)
	}
	panic(unsupported(fmt.Sprintf("load from %T", addr)))
}

func (e *Engine) prepareCall(fr *Frame, c *ssa.CallCommon) (Value, []Value) {
	var args []Value
	var fnv Value
	if c.IsInvoke() {
		recv := e.get(fr, c.Value).(Iface)
		if recv.T == nil {
			e.goPanicStr("nil interface method call")
		}
		if rt, ok := recv.V.(RT); ok {
			var rargs []Value
			for _, a := range c.Args {
				rargs = append(rargs, e.get(fr, a))
			}
			name := c.Method.Name()
			return intrinsic(func(e *Engine, _ []Value) Value { return e.rtMethod(name, rt, rargs) }), nil
		}
		m := e.prog.LookupMethod(recv.T, c.Method.Pkg(), c.Method.Name())
		if m == nil {
			panic(unsupported("method lookup " + c.Method.Name() + " on " + recv.T.String()))
		}
		fnv = m
		args = append(args, recv.V)
	} else {
		fnv = e.get(fr, c.Value)
	}
	for _, a := range c.Args {
		args = append(args, e.get(fr, a))
	}
	return fnv, args
}

func (e *Engine) eval(fr *Frame, ins ssa.Value) Value {
	switch ins := ins.(type) {
	case *ssa.Alloc:
		p := new(Value)
		*p = zero(ins.Type().(*types.Pointer).Elem())
		return p
	case *ssa.BinOp:
		return e.binop(ins.Op, ins.X.Type(), e.get(fr, ins.X), e.get(fr, ins.Y))
	case *ssa.UnOp:
		return e.unop(ins, e.get(fr, ins.X))
	case *ssa.Call:
		fnv, args := e.prepareCall(fr, &ins.Call)
		if b, ok := fnv.(*ssa.Builtin); ok {
			return e.builtin(b, args, ins)
		}
		return e.callFn(fnv, args)
	case *ssa.FieldAddr:
		p := e.get(fr, ins.X).(*Value)
		if p == nil {
			e.goPanicStr("nil pointer dereference (fieldaddr)")
		}
		s := (*p).(Struct)
		fa := &s[ins.Field]
		e.parent[fa] = parentInfo{p, ins.Field}
		return fa
	case *ssa.Field:
		return copyVal(e.get(fr, ins.X).(Struct)[ins.Field])
	case *ssa.IndexAddr:
		x := e.get(fr, ins.X)
		idx := e.get(fr, ins.Index).(Int)
		switch x := x.(type) {
		case Slice:
			if idx.T != nil {
				return e.symIndexCell((*x.A)[x.Off:x.Off+x.Len], idx, ins.Index.Type())
			}
			i := e.boundsIdx(idx, ins.Index.Type(), x.Len)
			cell := &(*x.A)[x.Off+i]
			if b, ok := (*cell).(Int); ok && b.W == 8 {
				if e.cellArr == nil {
					e.cellArr = map[*Value]cellInfo{}
				}
				e.cellArr[cell] = cellInfo{x.A, x.Off + i}
			}
			return cell
		case *Value:
			if x == nil {
				e.goPanicStr("nil pointer dereference (indexaddr)")
			}
			a := (*x).(Array)
			if idx.T != nil {
				return e.symIndexCell(a, idx, ins.Index.Type())
			}
			i := e.boundsIdx(idx, ins.Index.Type(), len(a))
			return &a[i]
		}
		panic(unsupported(fmt.Sprintf("indexaddr %T", x)))
	case *ssa.Index:
		x := e.get(fr, ins.X)
		idx := e.get(fr, ins.Index).(Int)
		switch x := x.(type) {
		case Array:
			i := e.boundsIdx(idx, ins.Index.Type(), len(x))
			return copyVal(x[i])
		case Str:
			i := e.boundsIdx(idx, ins.Index.Type(), x.Len())
			return x.byteAt(i)
		}
		panic(unsupported(fmt.Sprintf("index %T", x)))
	case *ssa.Lookup:
		x := e.get(fr, ins.X)
		switch x := x.(type) {
		case Str:
			idx := e.get(fr, ins.Index).(Int)
			i := e.boundsIdx(idx, ins.Index.Type(), x.Len())
			return x.byteAt(i)
		case *MapV:
			k := e.get(fr, ins.Index)
			var v Value
			ok := false
			e.noteMap(x, false)
			if x != nil {
				v, ok = e.mapGet(x, k)
			}
			if !ok {
				v = zero(ins.X.Type().Underlying().(*types.Map).Elem())
			}
			if ins.CommaOk {
				return Tuple{copyVal(v), Bool{V: ok}}
			}
			return copyVal(v)
		}
		panic(unsupported(fmt.Sprintf("lookup %T", x)))
	case *ssa.Slice:
		return e.sliceOp(fr, ins)
	case *ssa.MakeSlice:
		n := e.allocLen(e.get(fr, ins.Len), ins.Len.Type())
		c := e.allocLen(e.get(fr, ins.Cap), ins.Cap.Type())
		if n < 0 || c < n || c > 1<<47 { // above the runtime's maxAlloc whatever the element size
			e.goPanicStr("makeslice: len out of range")
		}
		if c > 1<<24 {
			panic(pathEnd{"unsupported", "huge makeslice"})
		}
		arr := make([]Value, c)
		et := ins.Type().Underlying().(*types.Slice).Elem()
		for i := range arr {
			arr[i] = zero(et)
		}
		return Slice{A: &arr, Len: n, Cap: c}
	case *ssa.MakeMap:
		return newMap()
	case *ssa.MakeChan:
		return &ChanV{cap: int(e.Concretize(e.get(fr, ins.Size).(Int)))}
	case *ssa.MakeInterface:
		return Iface{T: ins.X.Type(), V: e.get(fr, ins.X)}
	case *ssa.MakeClosure:
		c := &Closure{Fn: ins.Fn.(*ssa.Function)}
		for _, b := range ins.Bindings {
			c.Env = append(c.Env, e.get(fr, b))
		}
		return c
	case *ssa.ChangeType:
		return e.get(fr, ins.X)
	case *ssa.ChangeInterface:
		return e.get(fr, ins.X)
	case *ssa.Convert:
		return e.convert(ins.X.Type(), ins.Type(), e.get(fr, ins.X))
	case *ssa.Extract:
		return e.get(fr, ins.Tuple).(Tuple)[ins.Index]
	case *ssa.TypeAssert:
		return e.typeAssert(ins, e.get(fr, ins.X).(Iface))
	case *ssa.Range:
		e.curRange = ins
		return e.rangeIter(e.get(fr, ins.X))
	case *ssa.Next:
		return e.get(fr, ins.Iter).(*iter).next(e, ins)
	case *ssa.SliceToArrayPointer:
		panic(unsupported("slice2arrptr"))
	}
	panic(unsupported(fmt.Sprintf("eval %T", ins)))
}

// boundsIdx checks 0<=idx<n, forking a panic path when symbolic; returns concrete index.
func (e *Engine) boundsIdx(idx Int, t types.Type, n int) int {
	if idx.T == nil {
		_, signed, _ := intWidth(t)
		var i int64
		if signed {
			i = signExt(idx.V, idx.W)
		} else {
			i = int64(idx.V)
		}
		if i < 0 || i >= int64(n) {
			e.goPanicStr(fmt.Sprintf("index out of range [%d] with length %d", i, n))
		}
		return int(i)
	}
	e.boundsSym(idx, t, n)
	return int(e.Concretize(idx))
}

func (e *Engine) boundsSym(idx Int, t types.Type, n int) {
	_, signed, _ := intWidth(t)
	var x *Term
	if signed {
		x = mkSext(64, idx.T)
	} else {
		x = mkZext(64, idx.T)
	}
	if idx.W == 64 && !signed {
		x = idx.T
	}
	var inb *Term
	if signed {
		inb = mkAnd(mk("bvsge", 0, x, bvConst(64, 0)), mk("bvslt", 0, x, bvConst(64, uint64(n))))
	} else {
		inb = mk("bvult", 0, x, bvConst(64, uint64(n)))
	}
	if !e.Branch(inb) {
		e.goPanicStr("index out of range (symbolic)")
	}
}

func sameVal(a, b Value) bool {
	switch a := a.(type) {
	case Int:
		bb, ok := b.(Int)
		return ok && a.T == nil && bb.T == nil && a.V == bb.V && a.W == bb.W
	case Bool:
		bb, ok := b.(Bool)
		return ok && a.T == nil && bb.T == nil && a.V == bb.V
	case Slice:
		bb, ok := b.(Slice)
		return ok && ((a.Nil && bb.Nil) || (a.A == bb.A && a.Off == bb.Off && a.Len == bb.Len && !a.Nil && !bb.Nil))
	case Str:
		bb, ok := b.(Str)
		return ok && a.isC() && bb.isC() && a.S == bb.S
	case *Value:
		bb, ok := b.(*Value)
		return ok && a == bb
	}
	return false
}

// symIndexCell resolves a symbolic index into a concrete table by forking over classes of equal elements.
func (e *Engine) symIndexCell(arr []Value, idx Int, t types.Type) *Value {
	e.boundsSym(idx, t, len(arr))
	// classes
	var reps []int
	class := make([]int, len(arr))
	for i := range arr {
		found := -1
		for ci, r := range reps {
			if sameVal(arr[r], arr[i]) {
				found = ci
				break
			}
		}
		if found < 0 {
			reps = append(reps, i)
			found = len(reps) - 1
		}
		class[i] = found
		if len(reps) > 24 {
			return &arr[int(e.Concretize(idx))]
		}
	}
	count := make([]int, len(reps))
	for _, c := range class {
		count[c]++
	}
	big := 0
	for c := range count {
		if count[c] > count[big] {
			big = c
		}
	}
	// one fork per class of equal cells (not per index): the class condition is a disjunction of
	// index ranges
	for c := range reps {
		if c == big {
			continue
		}
		cond := tFalse
		for i := 0; i < len(arr); {
			if class[i] != c {
				i++
				continue
			}
			k := i
			for k+1 < len(arr) && class[k+1] == c {
				k++
			}
			if k == i {
				cond = mkOr(cond, mkEq(idx.T, bvConst(idx.W, uint64(i))))
			} else {
				cond = mkOr(cond, mkAnd(mk("bvuge", 0, idx.T, bvConst(idx.W, uint64(i))), mk("bvule", 0, idx.T, bvConst(idx.W, uint64(k)))))
			}
			i = k + 1
		}
		if e.Branch(cond) {
			if count[c] == 1 {
				return &arr[reps[c]]
			}
			return e.copyCell(arr[reps[c]])
		}
	}
	return e.copyCell(arr[reps[big]])
}

// copyCell: a read-only stand-in for "one of several equal cells selected by a symbolic index".
func (e *Engine) copyCell(v Value) *Value {
	cell := new(Value)
	*cell = copyVal(v)
	if e.copyCells == nil {
		e.copyCells = map[*Value]bool{}
	}
	e.copyCells[cell] = true
	return cell
}

func (e *Engine) sliceOp(fr *Frame, ins *ssa.Slice) Value {
	x := e.get(fr, ins.X)
	var lo, hi, max int = 0, -1, -1
	if ins.Low != nil {
		lo = e.concInt(e.get(fr, ins.Low))
	}
	if ins.High != nil {
		hi = e.concInt(e.get(fr, ins.High))
	}
	if ins.Max != nil {
		max = e.concInt(e.get(fr, ins.Max))
	}
	switch x := x.(type) {
	case Str:
		if hi < 0 && ins.High == nil {
			hi = x.Len()
		}
		if lo < 0 || hi < lo || hi > x.Len() {
			e.goPanicStr(fmt.Sprintf("slice bounds out of range [%d:%d] with length %d", lo, hi, x.Len()))
		}
		return x.slice(lo, hi)
	case Slice:
		if ins.High == nil {
			hi = x.Len
		}
		if ins.Max == nil {
			max = x.Cap
		}
		if lo < 0 || hi < lo || hi > x.Cap || max < hi || max > x.Cap {
			e.goPanicStr(fmt.Sprintf("slice bounds out of range [%d:%d:%d] with capacity %d", lo, hi, max, x.Cap))
		}
		if x.Nil {
			return x
		}
		return Slice{A: x.A, Off: x.Off + lo, Len: hi - lo, Cap: max - lo}
	case *Value:
		a := (*x).(Array)
		if ins.High == nil {
			hi = len(a)
		}
		if ins.Max == nil {
			max = len(a)
		}
		if lo < 0 || hi < lo || hi > len(a) {
			e.goPanicStr("slice bounds out of range (array)")
		}
		arr := []Value(a)
		return Slice{A: &arr, Off: lo, Len: hi - lo, Cap: max - lo}
	}
	panic(unsupported(fmt.Sprintf("slice of %T", x)))
}

func (e *Engine) typeAssert(ins *ssa.TypeAssert, x Iface) Value {
	var ok bool
	var res Value
	if it, isI := ins.AssertedType.Underlying().(*types.Interface); isI {
		ok = x.T != nil && types.Implements(x.T, it)
		if ok {
			res = x
		} else {
			res = Iface{}
		}
	} else {
		ok = x.T != nil && types.Identical(x.T, ins.AssertedType)
		if ok {
			res = x.V
		} else {
			res = zero(ins.AssertedType)
		}
	}
	if ins.CommaOk {
		return Tuple{res, Bool{V: ok}}
	}
	if !ok {
		e.goPanicStr(fmt.Sprintf("interface conversion: %v is not %v", x.T, ins.AssertedType))
	}
	return res
}

func (e *Engine) unop(ins *ssa.UnOp, x Value) Value {
	switch ins.Op {
	case token.ARROW:
		return e.evalRecv(ins, x)
	case token.MUL:
		return e.load(x)
	case token.NOT:
		b := x.(Bool)
		if b.T == nil {
			return Bool{V: !b.V}
		}
		return fromTermB(mkNot(b.T))
	case token.SUB:
		switch x := x.(type) {
		case Int:
			if x.T == nil {
				return mkInt(x.W, -x.V)
			}
			return fromTermI(mk("bvneg", x.W, x.T))
		case Float:
			return Float{-x.V}
		}
	case token.XOR:
		i := x.(Int)
		if i.T == nil {
			return mkInt(i.W, ^i.V)
		}
		return fromTermI(mk("bvnot", i.W, i.T))
	}
	panic(unsupported("unop " + ins.Op.String()))
}

func b2i(b bool) uint64 {
	if b {
		return 1
	}
	return 0
}

func (e *Engine) binop(op token.Token, t types.Type, x, y Value) Value {
	switch x := x.(type) {
	case Int:
		y := y.(Int)
		_, signed, _ := intWidth(t)
		return e.intBinop(op, signed, x, y)
	case Bool:
		y := y.(Bool)
		switch op {
		case token.EQL:
			if x.T == nil && y.T == nil {
				return Bool{V: x.V == y.V}
			}
			return fromTermB(mkEq(x.term(), y.term()))
		case token.NEQ:
			if x.T == nil && y.T == nil {
				return Bool{V: x.V != y.V}
			}
			return fromTermB(mkNot(mkEq(x.term(), y.term())))
		}
	case Str:
		y := y.(Str)
		switch op {
		case token.ADD:
			return strConcat(x, y)
		case token.EQL:
			return fromTermB(strEq(x, y))
		case token.NEQ:
			return fromTermB(mkNot(strEq(x, y)))
		case token.LSS, token.LEQ, token.GTR, token.GEQ:
			if !(x.isC() && y.isC()) {
				lt, eq := strLess(x, y)
				switch op {
				case token.LSS:
					return fromTermB(lt)
				case token.LEQ:
					return fromTermB(mkOr(lt, eq))
				case token.GTR:
					return fromTermB(mkNot(mkOr(lt, eq)))
				default:
					return fromTermB(mkNot(lt))
				}
			}
			if x.isC() && y.isC() {
				c := strings.Compare(x.S, y.S)
				switch op {
				case token.LSS:
					return Bool{V: c < 0}
				case token.LEQ:
					return Bool{V: c <= 0}
				case token.GTR:
					return Bool{V: c > 0}
				default:
					return Bool{V: c >= 0}
				}
			}
			panic(unsupported("symbolic string ordering"))
		}
	case Float:
		y := y.(Float)
		switch op {
		case token.ADD:
			return Float{x.V + y.V}
		case token.SUB:
			return Float{x.V - y.V}
		case token.MUL:
			return Float{x.V * y.V}
		case token.QUO:
			return Float{x.V / y.V}
		case token.EQL:
			return Bool{V: x.V == y.V}
		case token.NEQ:
			return Bool{V: x.V != y.V}
		case token.LSS:
			return Bool{V: x.V < y.V}
		case token.LEQ:
			return Bool{V: x.V <= y.V}
		case token.GTR:
			return Bool{V: x.V > y.V}
		case token.GEQ:
			return Bool{V: x.V >= y.V}
		}
	case *Value:
		yy, _ := y.(*Value)
		switch op {
		case token.EQL:
			return Bool{V: x == yy}
		case token.NEQ:
			return Bool{V: x != yy}
		}
	case Iface:
		y := y.(Iface)
		eq := e.ifaceEq(x, y)
		if op == token.EQL {
			return eq
		}
		return fromTermB(mkNot(eq.term()))
	case *MapV:
		// comparison with nil only
		if op == token.EQL {
			return Bool{V: x == nil}
		}
		return Bool{V: x != nil}
	case *ChanV:
		yc, _ := y.(*ChanV)
		if op == token.EQL {
			return Bool{V: x == yc}
		}
		return Bool{V: x != yc}
	case Slice:
		if op == token.EQL {
			return Bool{V: x.Nil}
		}
		return Bool{V: !x.Nil}
	case *ssa.Function:
		isNil := x == nil
		if op == token.EQL {
			return Bool{V: isNil}
		}
		return Bool{V: !isNil}
	case *Closure:
		if op == token.EQL {
			return Bool{V: x == nil}
		}
		return Bool{V: x != nil}
	case RT:
		yr, ok := y.(RT)
		same := ok && types.Identical(x.T, yr.T)
		if op == token.EQL {
			return Bool{V: same}
		}
		return Bool{V: !same}
	case PtrInt:
		yi := y.(Int)
		d := int64(e.Concretize(yi))
		switch op {
		case token.SUB:
			return PtrInt{x.P, x.Delta - d}
		case token.ADD:
			return PtrInt{x.P, x.Delta + d}
		}
	case Struct:
		ys := y.(Struct)
		r := tTrue
		for i := range x {
			b := e.binop(token.EQL, nil, x[i], ys[i]).(Bool)
			r = mkAnd(r, b.term())
		}
		if op == token.NEQ {
			r = mkNot(r)
		}
		return fromTermB(r)
	}
	panic(unsupported(fmt.Sprintf("binop %s on %T", op, x)))
}

func (e *Engine) ifaceEq(x, y Iface) Bool {
	if x.T == nil || y.T == nil {
		return Bool{V: x.T == nil && y.T == nil}
	}
	if !types.Identical(x.T, y.T) {
		return Bool{V: false}
	}
	if !types.Comparable(x.T) { // the run-time panic of == on interfaces holding slices, maps or funcs
		e.goPanicStr("comparing uncomparable type " + x.T.String())
	}
	return e.binop(token.EQL, x.T, x.V, y.V).(Bool)
}

func (e *Engine) intBinop(op token.Token, signed bool, x, y Int) Value {
	w := x.W
	if x.T == nil && y.T == nil {
		a, b := x.V, y.V
		sa, sb := signExt(a, w), signExt(b, y.W)
		switch op {
		case token.ADD:
			return mkInt(w, a+b)
		case token.SUB:
			return mkInt(w, a-b)
		case token.MUL:
			return mkInt(w, a*b)
		case token.QUO:
			if b == 0 {
				e.goPanicStr("integer divide by zero")
			}
			if signed {
				return mkInt(w, uint64(sa/sb))
			}
			return mkInt(w, a/b)
		case token.REM:
			if b == 0 {
				e.goPanicStr("integer divide by zero")
			}
			if signed {
				return mkInt(w, uint64(sa%sb))
			}
			return mkInt(w, a%b)
		case token.AND:
			return mkInt(w, a&b)
		case token.OR:
			return mkInt(w, a|b)
		case token.XOR:
			return mkInt(w, a^b)
		case token.AND_NOT:
			return mkInt(w, a&^b)
		case token.SHL:
			if b >= uint64(w) {
				return mkInt(w, 0)
			}
			return mkInt(w, a<<b)
		case token.SHR:
			if signed {
				if b >= uint64(w) {
					b = uint64(w - 1)
				}
				return mkInt(w, uint64(sa>>b))
			}
			if b >= uint64(w) {
				return mkInt(w, 0)
			}
			return mkInt(w, a>>b)
		case token.EQL:
			return Bool{V: a == b}
		case token.NEQ:
			return Bool{V: a != b}
		case token.LSS:
			if signed {
				return Bool{V: sa < sb}
			}
			return Bool{V: a < b}
		case token.LEQ:
			if signed {
				return Bool{V: sa <= sb}
			}
			return Bool{V: a <= b}
		case token.GTR:
			if signed {
				return Bool{V: sa > sb}
			}
			return Bool{V: a > b}
		case token.GEQ:
			if signed {
				return Bool{V: sa >= sb}
			}
			return Bool{V: a >= b}
		}
		panic(unsupported("int binop " + op.String()))
	}
	a, b := x.term(), y.term()
	var wideBig *Term // shift count wider than the operand: count >= w decided on the wide count
	if op == token.SHL || op == token.SHR {
		if b.W < w {
			b = mkZext(w, b)
		} else if b.W > w {
			wideBig = mk("bvuge", 0, b, bvConst(b.W, uint64(w)))
			b = mkExtract(w-1, 0, b)
		}
	}
	bin := func(o string) Value { return fromTermI(mk(o, w, a, b)) }
	cmp := func(o string) Value { return fromTermB(mk(o, 0, a, b)) }
	switch op {
	case token.ADD:
		return bin("bvadd")
	case token.SUB:
		return bin("bvsub")
	case token.MUL:
		return bin("bvmul")
	case token.QUO, token.REM:
		if !e.Branch(mkNot(mkEq(b, bvConst(w, 0)))) {
			e.goPanicStr("integer divide by zero")
		}
		if op == token.QUO {
			if signed {
				return bin("bvsdiv")
			}
			return bin("bvudiv")
		}
		if signed {
			return bin("bvsrem")
		}
		return bin("bvurem")
	case token.AND:
		return bin("bvand")
	case token.OR:
		return bin("bvor")
	case token.XOR:
		return bin("bvxor")
	case token.AND_NOT:
		return fromTermI(mk("bvand", w, a, mk("bvnot", w, b)))
	case token.SHL, token.SHR:
		o := "bvshl"
		if op == token.SHR {
			o = "bvlshr"
			if signed {
				o = "bvashr"
			}
		}
		r := mk(o, w, a, b)
		if wideBig != nil {
			over := bvConst(w, 0)
			if o == "bvashr" {
				over = mk("bvashr", w, a, bvConst(w, uint64(w-1)))
			}
			r = mkIte(wideBig, over, r)
		}
		return fromTermI(r)
	case token.EQL:
		return fromTermB(mkEq(a, b))
	case token.NEQ:
		return fromTermB(mkNot(mkEq(a, b)))
	case token.LSS:
		if signed {
			return cmp("bvslt")
		}
		return cmp("bvult")
	case token.LEQ:
		if signed {
			return cmp("bvsle")
		}
		return cmp("bvule")
	case token.GTR:
		if signed {
			return cmp("bvsgt")
		}
		return cmp("bvugt")
	case token.GEQ:
		if signed {
			return cmp("bvsge")
		}
		return cmp("bvuge")
	}
	panic(unsupported("sym int binop " + op.String()))
}

func (e *Engine) convert(from, to types.Type, x Value) Value {
	fu, tu := from.Underlying(), to.Underlying()
	if tw, _, ok := intWidth(to); ok {
		switch x := x.(type) {
		case Int:
			_, fsigned, _ := intWidth(from)
			if x.T == nil {
				if fsigned {
					return mkInt(tw, uint64(signExt(x.V, x.W)))
				}
				return mkInt(tw, x.V)
			}
			switch {
			case tw == x.W:
				return x
			case tw < x.W:
				return fromTermI(mkExtract(tw-1, 0, x.T))
			case fsigned:
				return fromTermI(mkSext(tw, x.T))
			default:
				return fromTermI(mkZext(tw, x.T))
			}
		case Float:
			return mkInt(tw, uint64(int64(x.V)))
		case *Value, StrPtr: // unsafe.Pointer -> uintptr
			return PtrInt{P: x}
		case PtrInt:
			return x
		}
	}
	if tb, ok := tu.(*types.Basic); ok {
		switch {
		case tb.Info()&types.IsFloat != 0:
			switch x := x.(type) {
			case Int:
				_, fsigned, _ := intWidth(from)
				v := e.Concretize(x)
				if fsigned {
					return Float{float64(signExt(v, x.W))}
				}
				return Float{float64(v)}
			case Float:
				if tb.Kind() == types.Float32 {
					return Float{float64(float32(x.V))}
				}
				return x
			}
		case tb.Kind() == types.String:
			switch x := x.(type) {
			case Int: // string(rune)
				if x.T != nil {
					// only ASCII-range handled symbolically
					if !e.Branch(mk("bvult", 0, mkZext(64, x.T), bvConst(64, 0x80))) {
						v := e.Concretize(x)
						return Str{S: string(rune(signExt(v, x.W)))}
					}
					return Str{S: "?", Sym: []*Term{mkExtract(7, 0, x.T)}}
				}
				return Str{S: string(rune(signExt(x.V, x.W)))}
			case Slice: // []byte or []rune -> string
				et := fu.(*types.Slice).Elem().Underlying().(*types.Basic)
				if et.Kind() == types.Uint8 {
					bs := make([]Int, x.Len)
					for i := 0; i < x.Len; i++ {
						if e.ls.on && len(e.inPool) > 0 {
							e.noteOwnership(&(*x.A)[x.Off+i], "read")
						}
						bs[i] = (*x.A)[x.Off+i].(Int)
					}
					return strFromBytes(bs)
				}
				var sb strings.Builder
				for i := 0; i < x.Len; i++ {
					r := (*x.A)[x.Off+i].(Int)
					sb.WriteRune(rune(signExt(e.Concretize(r), 32)))
				}
				return Str{S: sb.String()}
			case Str:
				return x
			}
		case tb.Kind() == types.UnsafePointer:
			switch x := x.(type) {
			case *Value, StrPtr:
				return x
			case PtrInt:
				return e.ptrFromInt(x)
			}
		}
	}
	if ts, ok := tu.(*types.Slice); ok {
		if s, ok := x.(Str); ok {
			et := ts.Elem().Underlying().(*types.Basic)
			if et.Kind() == types.Uint8 {
				arr := make([]Value, s.Len())
				for i := range arr {
					arr[i] = s.byteAt(i)
				}
				return Slice{A: &arr, Len: len(arr), Cap: len(arr)}
			}
			// []rune(string)
			rs := e.decodeRunes(s)
			arr := make([]Value, len(rs))
			for i := range rs {
				arr[i] = rs[i]
			}
			return Slice{A: &arr, Len: len(arr), Cap: len(arr)}
		}
	}
	if tp, ok := tu.(*types.Pointer); ok {
		switch x := x.(type) {
		case *Value:
			// container_of: pointer to field 0 reinterpreted as pointer to the enclosing struct
			if st, ok := tp.Elem().Underlying().(*types.Struct); ok && x != nil {
				if cur, ok := (*x).(Struct); !ok || len(cur) != st.NumFields() {
					if pi, ok := e.parent[x]; ok && pi.idx == 0 {
						if ps, ok := (*pi.cell).(Struct); ok && len(ps) == st.NumFields() {
							return pi.cell
						}
					}
				}
			}
			return x
		case StrPtr:
			return x
		case PtrInt:
			return e.ptrFromInt(x)
		}
	}
	panic(unsupported(fmt.Sprintf("convert %s -> %s (%T)", from, to, x)))
}

func (e *Engine) ptrFromInt(x PtrInt) Value {
	switch p := x.P.(type) {
	case StrPtr:
		return StrPtr{p.S, p.Off + int(x.Delta)}
	case *Value:
		if x.Delta == 0 {
			// container_of with zero offset: pointer to parent cell if this is field 0, else itself
			return p
		}
	}
	panic(unsupported("pointer arithmetic"))
}

// decodeRunes decodes UTF-8 from possibly-symbolic bytes, forking on byte classes.
func (e *Engine) decodeRunes(s Str) []Int {
	rs, _ := e.decodeRunesSz(s)
	return rs
}

// decodeRunesSz also returns the encoded size of every rune (1 for invalid bytes).
func (e *Engine) decodeRunesSz(s Str) ([]Int, []int) {
	var out []Int
	var sizes []int
	i := 0
	for i < s.Len() {
		b := s.byteAt(i)
		if b.T == nil {
			if b.V < 0x80 {
				out = append(out, mkInt(32, b.V))
				sizes = append(sizes, 1)
				i++
				continue
			}
		} else if e.Branch(mk("bvult", 0, b.T, bvConst(8, 0x80))) {
			out = append(out, fromTermI(mkZext(32, b.T)))
			sizes = append(sizes, 1)
			i++
			continue
		}
		// non-ASCII lead byte: make it and the (up to 3) following bytes concrete, forking over the
		// feasible values of those that are symbolic
		buf := []byte{byte(e.Concretize(b))}
		need := 1
		switch {
		case buf[0] >= 0xf0:
			need = 4
		case buf[0] >= 0xe0:
			need = 3
		case buf[0] >= 0xc2:
			need = 2
		}
		for j := i + 1; j < s.Len() && j < i+need; j++ {
			bj := s.byteAt(j)
			if bj.T != nil {
				// only whether it is a continuation byte matters unless the sequence completes
				if !e.Branch(mkAnd(mk("bvuge", 0, bj.T, bvConst(8, 0x80)), mk("bvule", 0, bj.T, bvConst(8, 0xbf)))) {
					break
				}
			}
			buf = append(buf, byte(e.Concretize(bj)))
		}
		r, size := decodeRuneConcrete(string(buf))
		out = append(out, mkInt(32, uint64(r)))
		sizes = append(sizes, size)
		i += size
	}
	return out, sizes
}

func decodeRuneConcrete(s string) (rune, int) {
	r, size := utf8.DecodeRuneInString(s)
	if size == 0 {
		return utf8.RuneError, 1
	}
	return r, size
}

var _ = math.MaxInt64

// strLess: lexicographic (bytewise, unsigned) order of two possibly symbolic strings as terms
// (a < b, a == b); no forks.
func strLess(a, b Str) (*Term, *Term) {
	n := a.Len()
	if b.Len() < n {
		n = b.Len()
	}
	lt := boolConst(a.Len() < b.Len())
	eq := boolConst(a.Len() == b.Len())
	for i := n - 1; i >= 0; i-- {
		x, y := a.byteAt(i).term(), b.byteAt(i).term()
		bl := mk("bvult", 0, x, y)
		be := mkEq(x, y)
		if x.Op == "bvconst" && y.Op == "bvconst" {
			bl = boolConst(x.Val < y.Val)
		}
		lt = mkOr(bl, mkAnd(be, lt))
		eq = mkAnd(be, eq)
	}
	return lt, eq
}

// orderInsensitiveLoop recognises the map copy / clear idioms
//
//	for k, v := range m { dst[k] = v }      for k := range m { delete(m, k) }
//
// at SSA level: the loop body consists only of extracting key/value and map updates or deletes. The
// result of such a loop does not depend on the iteration order (keys are distinct), so the
// map-order adversary does not fork on it.
func (e *Engine) orderInsensitiveLoop(rng *ssa.Range) bool {
	if rng == nil {
		return false
	}
	if v, ok := e.orderFree[rng]; ok {
		return v
	}
	res := func() bool {
		refs := rng.Referrers()
		if refs == nil || len(*refs) != 1 {
			return false
		}
		nx, ok := (*refs)[0].(*ssa.Next)
		if !ok {
			return false
		}
		hdr := nx.Block()
		if len(hdr.Instrs) == 0 {
			return false
		}
		br, ok := hdr.Instrs[len(hdr.Instrs)-1].(*ssa.If)
		if !ok || len(hdr.Succs) != 2 {
			return false
		}
		_ = br
		for _, ins := range hdr.Instrs {
			switch ins.(type) {
			case *ssa.Next, *ssa.Extract, *ssa.If, *ssa.DebugRef, *ssa.Phi:
			default:
				return false
			}
		}
		body := hdr.Succs[0]
		if len(body.Succs) != 1 || body.Succs[0] != hdr {
			return false
		}
		for _, ins := range body.Instrs {
			switch x := ins.(type) {
			case *ssa.Extract, *ssa.MapUpdate, *ssa.Jump, *ssa.DebugRef, *ssa.ChangeType, *ssa.MakeInterface, *ssa.UnOp, *ssa.FieldAddr:
				if u, isU := x.(*ssa.UnOp); isU && u.Op != token.MUL {
					return false
				}
			case *ssa.Call:
				b, isB := x.Call.Value.(*ssa.Builtin)
				if !isB || b.Name() != "delete" {
					return false
				}
			default:
				return false
			}
		}
		return true
	}()
	if e.orderFree == nil {
		e.orderFree = map[*ssa.Range]bool{}
	}
	e.orderFree[rng] = res
	return res
}
