package main

import (
	"fmt"
	"go/types"

	"golang.org/x/tools/go/ssa"
)

// hasSymKey: does a map key contain symbolic parts (so that it cannot be hashed)?
func hasSymKey(k Value) bool {
	switch k := k.(type) {
	case Int:
		return k.T != nil
	case Bool:
		return k.T != nil
	case Str:
		return !k.isC()
	case Iface:
		return hasSymKey(k.V)
	case Struct:
		for _, f := range k {
			if hasSymKey(f) {
				return true
			}
		}
	case Array:
		for _, f := range k {
			if hasSymKey(f) {
				return true
			}
		}
	}
	return false
}

// keyEqTerm: structural equality of two map keys of the same static type, as a term.
func keyEqTerm(a, b Value) *Term {
	switch x := a.(type) {
	case Int:
		if y, ok := b.(Int); ok && y.W == x.W {
			return mkEq(x.term(), y.term())
		}
	case Bool:
		if y, ok := b.(Bool); ok {
			return mkEq(x.term(), y.term())
		}
	case Str:
		if y, ok := b.(Str); ok {
			return strEq(x, y)
		}
	case Float:
		if y, ok := b.(Float); ok {
			return boolConst(x.V == y.V)
		}
	case Iface:
		if y, ok := b.(Iface); ok {
			if x.T == nil || y.T == nil {
				return boolConst(x.T == nil && y.T == nil)
			}
			if !types.Identical(x.T, y.T) {
				return tFalse
			}
			return keyEqTerm(x.V, y.V)
		}
	case Struct:
		if y, ok := b.(Struct); ok && len(y) == len(x) {
			t := tTrue
			for i := range x {
				t = mkAnd(t, keyEqTerm(x[i], y[i]))
			}
			return t
		}
	case Array:
		if y, ok := b.(Array); ok && len(y) == len(x) {
			t := tTrue
			for i := range x {
				t = mkAnd(t, keyEqTerm(x[i], y[i]))
			}
			return t
		}
	case *Value:
		if y, ok := b.(*Value); ok {
			return boolConst(x == y)
		}
	case RT:
		if y, ok := b.(RT); ok {
			return boolConst(types.Identical(x.T, y.T))
		}
	case nil:
		return boolConst(b == nil)
	}
	return tFalse
}

// scanKey: for keys with symbolic parts inside structs or arrays the entries are searched one by one,
// each comparison decided by the solver (forks). Returns the index of the matching live entry or -1.
func (e *Engine) scanKey(m *MapV, k Value) int {
	for i, kk := range m.keys {
		if m.del[i] {
			continue
		}
		if e.Branch(keyEqTerm(k, kk)) {
			return i
		}
	}
	return -1
}

func compositeSymKey(m *MapV, k Value) bool {
	switch k.(type) {
	case Struct, Array:
		if hasSymKey(k) {
			return true
		}
		for i, kk := range m.keys {
			if !m.del[i] && hasSymKey(kk) {
				return true
			}
		}
	}
	return false
}

func (e *Engine) mapGet(m *MapV, k Value) (Value, bool) {
	e.checkHashable(k)
	if compositeSymKey(m, k) {
		if i := e.scanKey(m, k); i >= 0 {
			return m.vals[i], true
		}
		return nil, false
	}
	if s, ok := k.(Str); ok && !s.isC() {
		// fork over existing string keys
		for i, kk := range m.keys {
			if m.del[i] {
				continue
			}
			ks, ok := kk.(Str)
			if !ok {
				continue
			}
			if e.Branch(strEq(s, ks)) {
				return m.vals[i], true
			}
		}
		return nil, false
	}
	if it, ok := k.(Iface); ok {
		if s, ok := it.V.(Str); ok && !s.isC() {
			// interface-typed key holding a symbolic string: fork over the stored keys of dynamic type string
			for i, kk := range m.keys {
				if m.del[i] {
					continue
				}
				if kit, ok := kk.(Iface); ok && kit.T != nil && types.Identical(kit.T, it.T) {
					if ks, ok := kit.V.(Str); ok {
						if e.Branch(strEq(s, ks)) {
							return m.vals[i], true
						}
					}
				}
			}
			return nil, false
		}
		if ki, ok := it.V.(Int); ok && ki.T != nil {
			// interface-typed key holding a symbolic integer: fork over stored keys of the same dynamic type
			for i, kk := range m.keys {
				if m.del[i] {
					continue
				}
				if kit, ok := kk.(Iface); ok && kit.T != nil && types.Identical(kit.T, it.T) {
					if kc, ok := kit.V.(Int); ok && kc.W == ki.W {
						if e.Branch(mkEq(ki.T, kc.term())) {
							return m.vals[i], true
						}
					}
				}
			}
			return nil, false
		}
	}
	if ki, ok := k.(Int); ok && ki.T != nil {
		// symbolic integer key: fork over the stored integer keys
		for i, kk := range m.keys {
			if m.del[i] {
				continue
			}
			if kc, ok := kk.(Int); ok && kc.W == ki.W {
				if e.Branch(mkEq(ki.T, kc.term())) {
					return m.vals[i], true
				}
			}
		}
		return nil, false
	}
	return m.get(k)
}

func (e *Engine) mapSet(m *MapV, k, v Value) {
	e.checkHashable(k)
	if compositeSymKey(m, k) {
		if i := e.scanKey(m, k); i >= 0 {
			m.vals[i] = v
			return
		}
		m.keys = append(m.keys, k)
		m.vals = append(m.vals, v)
		m.del = append(m.del, false)
		m.n++
		return
	}
	if s, ok := k.(Str); ok && !s.isC() {
		for i, kk := range m.keys {
			if m.del[i] {
				continue
			}
			ks, ok := kk.(Str)
			if !ok {
				continue
			}
			if e.Branch(strEq(s, ks)) {
				m.vals[i] = v
				return
			}
		}
		// new symbolic key: store as-is (association list entry with non-hashable key)
		m.keys = append(m.keys, k)
		m.vals = append(m.vals, v)
		m.del = append(m.del, false)
		m.n++
		return
	}
	m.set(k, v)
}

// mapDelete removes key k; a symbolic string key is matched against the stored keys by forking.
func (e *Engine) mapDelete(m *MapV, k Value) {
	e.checkHashable(k)
	if compositeSymKey(m, k) {
		if i := e.scanKey(m, k); i >= 0 {
			m.del[i] = true
			m.n--
		}
		return
	}
	if s, ok := k.(Str); ok && !s.isC() {
		for i, kk := range m.keys {
			if m.del[i] {
				continue
			}
			ks, ok := kk.(Str)
			if !ok {
				continue
			}
			if e.Branch(strEq(s, ks)) {
				m.del[i] = true
				if ks.isC() {
					delete(m.idx, hashKey(kk))
				}
				m.n--
				return
			}
		}
		return
	}
	// concrete key: a stored symbolic key may equal it
	for i, kk := range m.keys {
		if m.del[i] {
			continue
		}
		if ks, ok := kk.(Str); ok && !ks.isC() {
			if cs, ok := k.(Str); ok && e.Branch(strEq(cs, ks)) {
				m.del[i] = true
				m.n--
				return
			}
		}
	}
	m.delete(k)
}

type iter struct {
	kind string
	m    *MapV
	i    int
	s    Str
	rs   []Int
	offs []int
	perm []int
}

// permute returns live key indices in an adversarially chosen order (decisions).
func (e *Engine) permute(m *MapV) []int {
	var live []int
	for i := range m.keys {
		if !m.del[i] {
			live = append(live, i)
		}
	}
	var out []int
	if len(live) > 4 {
		// bounded adversary for larger maps: any rotation, either direction
		t := e.newSym(8, "rot")
		e.assume(mk("bvult", 0, t, bvConst(8, uint64(len(live)))))
		k := int(e.Concretize(Int{W: 8, T: t}))
		rev := e.Branch(e.newSym(0, "rev"))
		for i := range live {
			j := (k + i) % len(live)
			if rev {
				j = (k - i + len(live)) % len(live)
			}
			out = append(out, live[j])
		}
		return out
	}
	for len(live) > 1 {
		t := e.newSym(8, "perm")
		e.assume(mk("bvult", 0, t, bvConst(8, uint64(len(live)))))
		k := int(e.Concretize(Int{W: 8, T: t}))
		out = append(out, live[k])
		live = append(live[:k:k], live[k+1:]...)
	}
	return append(out, live...)
}

func (e *Engine) rangeIter(x Value) Value {
	switch x := x.(type) {
	case *MapV:
		it := &iter{kind: "map", m: x}
		if e.mapAdversary && x != nil && x.n > 1 && !e.orderInsensitiveLoop(e.curRange) {
			it.perm = e.permute(x)
		}
		return it
	case Str:
		it := &iter{kind: "str", s: x}
		rs, sizes := e.decodeRunesSz(x)
		it.rs = rs
		off := 0
		for k := range rs {
			it.offs = append(it.offs, off)
			off += sizes[k]
		}
		return it
	}
	panic(unsupported(fmt.Sprintf("range over %T", x)))
}

func (it *iter) next(e *Engine, ins *ssa.Next) Value {
	switch it.kind {
	case "map":
		if it.perm != nil {
			if it.i < len(it.perm) {
				i := it.perm[it.i]
				it.i++
				return Tuple{Bool{V: true}, it.m.keys[i], copyVal(it.m.vals[i])}
			}
			tt := ins.Type().(*types.Tuple)
			return Tuple{Bool{V: false}, zero(tt.At(1).Type()), zero(tt.At(2).Type())}
		}
		if it.m != nil {
			for it.i < len(it.m.keys) {
				i := it.i
				it.i++
				if !it.m.del[i] {
					return Tuple{Bool{V: true}, it.m.keys[i], copyVal(it.m.vals[i])}
				}
			}
		}
		tt := ins.Type().(*types.Tuple)
		return Tuple{Bool{V: false}, zero(tt.At(1).Type()), zero(tt.At(2).Type())}
	case "str":
		if it.i < len(it.rs) {
			i := it.i
			it.i++
			return Tuple{Bool{V: true}, mkInt(64, uint64(it.offs[i])), it.rs[i]}
		}
		return Tuple{Bool{V: false}, mkInt(64, 0), mkInt(32, 0)}
	}
	panic("iter")
}

func nextCap(oldCap, needed int) int {
	newcap := oldCap
	doublecap := newcap + newcap
	if needed > doublecap {
		return needed
	}
	const threshold = 256
	if oldCap < threshold {
		if doublecap == 0 {
			return needed
		}
		return doublecap
	}
	for newcap < needed {
		newcap += (newcap + 3*threshold) >> 2
	}
	return newcap
}

func (e *Engine) builtin(b *ssa.Builtin, args []Value, call *ssa.Call) Value {
	switch b.Name() {
	case "close":
		c, _ := args[0].(*ChanV)
		e.chanClose(c)
		return nil
	case "ssa:wrapnilchk":
		// value-receiver method called through a pointer: the wrapper panics on a nil pointer
		if p, ok := args[0].(*Value); ok && p == nil {
			e.goPanicStr("value method " + args[1].(Str).S + "." + args[2].(Str).S + " called using nil pointer")
		}
		return args[0]
	case "len":
		switch x := args[0].(type) {
		case Str:
			return mkInt(64, uint64(x.Len()))
		case Slice:
			return mkInt(64, uint64(x.Len))
		case *MapV:
			if x == nil {
				return mkInt(64, 0)
			}
			return mkInt(64, uint64(x.n))
		case *ChanV:
			if x == nil {
				return mkInt(64, 0)
			}
			return mkInt(64, uint64(len(x.buf)))
		case Array:
			return mkInt(64, uint64(len(x)))
		case *Value:
			return mkInt(64, uint64(len((*x).(Array))))
		}
	case "cap":
		switch x := args[0].(type) {
		case Slice:
			return mkInt(64, uint64(x.Cap))
		}
	case "append":
		s := args[0].(Slice)
		var add []Value
		switch y := args[1].(type) {
		case Slice:
			for i := 0; i < y.Len; i++ {
				if e.ls.on && len(e.inPool) > 0 {
					e.noteOwnership(&(*y.A)[y.Off+i], "read")
				}
				add = append(add, copyVal((*y.A)[y.Off+i]))
			}
		case Str:
			for i := 0; i < y.Len(); i++ {
				add = append(add, y.byteAt(i))
			}
		}
		if len(add) == 0 {
			return s
		}
		n := s.Len + len(add)
		if n <= s.Cap && !s.Nil {
			for i, v := range add {
				if len(e.strViews) > 0 {
					e.checkStrView(&(*s.A)[s.Off+s.Len+i])
				}
				(*s.A)[s.Off+s.Len+i] = v
			}
			return Slice{A: s.A, Off: s.Off, Len: n, Cap: s.Cap}
		}
		nc := nextCap(s.Cap, n)
		arr := make([]Value, nc)
		for i := 0; i < s.Len; i++ {
			// a fresh backing array: by-value elements (structs, arrays) must not stay shared with the
			// abandoned array, or a write through a stale element pointer would show in the new one
			arr[i] = copyVal((*s.A)[s.Off+i])
		}
		copy(arr[s.Len:], add)
		var et types.Type
		if call != nil {
			et = call.Type().Underlying().(*types.Slice).Elem()
			for i := n; i < nc; i++ {
				arr[i] = zero(et)
			}
		}
		return Slice{A: &arr, Len: n, Cap: nc}
	case "copy":
		d := args[0].(Slice)
		n := 0
		switch y := args[1].(type) {
		case Slice:
			n = min(d.Len, y.Len)
			tmp := make([]Value, n)
			for i := 0; i < n; i++ {
				if e.ls.on && len(e.inPool) > 0 {
					e.noteOwnership(&(*y.A)[y.Off+i], "read")
				}
				tmp[i] = copyVal((*y.A)[y.Off+i])
			}
			for i := 0; i < n; i++ {
				if len(e.strViews) > 0 {
					e.checkStrView(&(*d.A)[d.Off+i])
				}
				(*d.A)[d.Off+i] = tmp[i]
			}
		case Str:
			n = min(d.Len, y.Len())
			for i := 0; i < n; i++ {
				if len(e.strViews) > 0 {
					e.checkStrView(&(*d.A)[d.Off+i])
				}
				(*d.A)[d.Off+i] = y.byteAt(i)
			}
		}
		return mkInt(64, uint64(n))
	case "delete":
		m := args[0].(*MapV)
		e.noteMap(m, true)
		if m != nil {
			if lbl, ok := e.roMaps[m]; ok {
				e.reportKind("frame", "delete from read-only "+lbl+" at "+e.where(), nil)
			}
			e.mapDelete(m, args[1])
		}
		return nil
	case "max", "min":
		r := args[0].(Int)
		for _, a := range args[1:] {
			ai := a.(Int)
			var c Bool
			if b.Name() == "max" {
				c = e.intBinop(tokenGTR, true, ai, r).(Bool)
			} else {
				c = e.intBinop(tokenLSS, true, ai, r).(Bool)
			}
			if c.T == nil {
				if c.V {
					r = ai
				}
			} else {
				r = fromTermI(mkIte(c.T, ai.term(), r.term()))
			}
		}
		return r
	case "StringData":
		return StrPtr{S: args[0].(Str)}
	case "Add":
		off := e.concInt(args[1])
		switch p := args[0].(type) {
		case StrPtr:
			return StrPtr{p.S, p.Off + off}
		}
	case "String": // unsafe.String(ptr, len)
		n := e.concInt(args[1])
		switch p := args[0].(type) {
		case *Value:
			// pointer to first element of a byte array
			if p == nil {
				return Str{}
			}
			if ci, ok := e.cellArr[p]; ok {
				if ci.idx+n > len(*ci.arr) {
					panic(pathEnd{"violation", "unsafe.String reads past the allocation"})
				}
				bs := make([]Int, n)
				for i := 0; i < n; i++ {
					bs[i] = (*ci.arr)[ci.idx+i].(Int)
					e.noteStrView(&(*ci.arr)[ci.idx+i])
				}
				return strFromBytes(bs)
			}
			if bp, ok := e.byteBacking[p]; ok {
				bs := make([]Int, n)
				for i := 0; i < n; i++ {
					bs[i] = (*bp.A)[bp.Off+i].(Int)
					e.noteStrView(&(*bp.A)[bp.Off+i])
				}
				return strFromBytes(bs)
			}
		}
	case "SliceData":
		s := args[0].(Slice)
		if s.Nil || s.Cap == 0 {
			return (*Value)(nil)
		}
		p := &(*s.A)[s.Off]
		if e.byteBacking == nil {
			e.byteBacking = map[*Value]Slice{}
		}
		e.byteBacking[p] = s
		return p
	case "print", "println":
		return nil
	case "recover":
		if e.panicking != nil && !e.panicking.recovered {
			e.panicking.recovered = true
			return e.panicking.v
		}
		return Iface{}
	}
	panic(unsupported(fmt.Sprintf("builtin %s(%d args)", b.Name(), len(args))))
}

// String views: unsafe.String makes a string that shares the bytes of a slice. Go strings are
// immutable values for everyone who holds them, so a later write to those bytes changes strings that
// were already handed out. The interpreter's strings are snapshots; the monitor reports the write
// instead (kind "memory"). Views are dropped when the harness says the strings are dead
// (never, at present: every string the code under test builds this way is returned to its caller).
func (e *Engine) noteStrView(c *Value) {
	if e.strViews == nil {
		e.strViews = map[*Value]bool{}
	}
	e.strViews[c] = true
}

func (e *Engine) checkStrView(c *Value) {
	if e.strViews[c] {
		delete(e.strViews, c) // one report per byte
		e.reportKind("memory", "write to bytes that a string made with unsafe.String still shares, in "+e.curFunc(), nil)
	}
}

// checkHashable: using an interface value whose dynamic type is a slice, map or func (or holds one)
// as a map key is a run-time panic.
func (e *Engine) checkHashable(k Value) {
	if it, ok := k.(Iface); ok && it.T != nil && !types.Comparable(it.T) {
		e.goPanicStr("hash of unhashable type " + it.T.String())
	}
}
