package main

import (
	"fmt"
	"go/types"
	"sort"
	"strconv"
	"strings"
)

// Symbolic %v / %s / %d formatting: the text of a value whose strings or integers are symbolic is
// built as a symbolic string, following package fmt's rules for the value kinds the repository
// prints (strings, integers, bools, floats, slices, arrays, maps, structs, pointers to structs,
// Stringers and errors). ok=false means the value is outside what is modelled.

type fmtUnsup struct{ why string }

func (e *Engine) fmtSymTop(verb byte, x Value) (s Str, ok bool) {
	defer func() {
		if r := recover(); r != nil {
			if _, is := r.(fmtUnsup); is {
				ok = false
				return
			}
			panic(r)
		}
	}()
	it, isI := x.(Iface)
	if !isI {
		return Str{}, false
	}
	if it.T == nil {
		if verb == 'v' {
			return Str{S: "<nil>"}, true
		}
		return Str{S: "%!" + string(verb) + "(<nil>)"}, true
	}
	return e.fmtSymVal(verb, it.V, it.T, 0), true
}

func exportedName(n string) bool { return n != "" && n[0] >= 'A' && n[0] <= 'Z' }

func (e *Engine) fmtSymVal(verb byte, v Value, t types.Type, depth int) Str {
	if it, isI := v.(Iface); isI {
		if _, ifaceT := t.Underlying().(*types.Interface); ifaceT {
			if it.T == nil {
				return Str{S: "<nil>"}
			}
			return e.fmtSymVal(verb, it.V, it.T, depth)
		}
	}
	// methods (Error before String), for %v and %s
	if verb == 'v' || verb == 's' {
		if _, isPtr := t.Underlying().(*types.Pointer); isPtr {
			if p, ok := v.(*Value); ok && p == nil {
				if e.methodOf(t, "Error") != nil || e.methodOf(t, "String") != nil {
					return Str{S: "<nil>"}
				}
			}
		}
		for _, mn := range []string{"Error", "String"} {
			if m := e.methodOf(t, mn); m != nil && m.Signature.Params().Len() == 0 && m.Signature.Results().Len() == 1 {
				if b, ok := m.Signature.Results().At(0).Type().Underlying().(*types.Basic); ok && b.Kind() == types.String {
					if r, ok := e.call(m, []Value{v}, nil).(Str); ok {
						return r
					}
				}
			}
		}
	}
	switch u := t.Underlying().(type) {
	case *types.Basic:
		switch {
		case u.Kind() == types.String:
			if verb == 'd' {
				panic(fmtUnsup{"%d of string"})
			}
			return v.(Str)
		case u.Kind() == types.Bool:
			b := v.(Bool)
			if verb != 'v' {
				panic(fmtUnsup{"bool verb"})
			}
			if e.Branch(b.term()) {
				return Str{S: "true"}
			}
			return Str{S: "false"}
		case u.Info()&types.IsInteger != 0:
			i := v.(Int)
			if verb == 's' {
				panic(fmtUnsup{"%s of int"})
			}
			if i.T == nil {
				if u.Info()&types.IsUnsigned != 0 {
					return Str{S: strconv.FormatUint(i.V, 10)}
				}
				return Str{S: strconv.FormatInt(signExt(i.V, i.W), 10)}
			}
			if u.Info()&types.IsUnsigned != 0 {
				if i.W < 64 {
					return e.formatIntSym(Int{W: 64, T: mkZext(64, i.T)}).(Str)
				}
				panic(fmtUnsup{"symbolic uint64"})
			}
			return e.formatIntSym(i).(Str)
		case u.Info()&types.IsFloat != 0:
			f, ok := v.(Float)
			if !ok || verb != 'v' {
				panic(fmtUnsup{"float"})
			}
			if u.Kind() == types.Float32 {
				return Str{S: fmt.Sprintf("%v", float32(f.V))}
			}
			return Str{S: fmt.Sprintf("%v", f.V)}
		}
	case *types.Slice:
		s := v.(Slice)
		if b, ok := u.Elem().Underlying().(*types.Basic); ok && b.Kind() == types.Uint8 && verb == 's' {
			bs := make([]Int, s.Len)
			for i := range bs {
				bs[i] = (*s.A)[s.Off+i].(Int)
			}
			return strFromBytes(bs)
		}
		out := Str{S: "["}
		for i := 0; i < s.Len; i++ {
			if i > 0 {
				out = strConcat(out, Str{S: " "})
			}
			out = strConcat(out, e.fmtSymVal(verb, (*s.A)[s.Off+i], u.Elem(), depth+1))
		}
		return strConcat(out, Str{S: "]"})
	case *types.Array:
		a := v.(Array)
		out := Str{S: "["}
		for i := range a {
			if i > 0 {
				out = strConcat(out, Str{S: " "})
			}
			out = strConcat(out, e.fmtSymVal(verb, a[i], u.Elem(), depth+1))
		}
		return strConcat(out, Str{S: "]"})
	case *types.Map:
		m, _ := v.(*MapV)
		out := Str{S: "map["}
		if m != nil {
			type ent struct {
				ks string
				kn int64
				i  int
			}
			var ents []ent
			numeric := false
			for i, k := range m.keys {
				if m.del[i] {
					continue
				}
				kk := k
				if it, ok := kk.(Iface); ok {
					kk = it.V
				}
				switch kc := kk.(type) {
				case Str:
					if !kc.isC() {
						panic(fmtUnsup{"symbolic map key"})
					}
					ents = append(ents, ent{ks: kc.S, i: i})
				case Int:
					if kc.T != nil {
						panic(fmtUnsup{"symbolic map key"})
					}
					numeric = true
					ents = append(ents, ent{kn: signExt(kc.V, kc.W), i: i})
				default:
					panic(fmtUnsup{"map key kind"})
				}
			}
			if _, mixed := u.Key().Underlying().(*types.Interface); mixed && numeric {
				panic(fmtUnsup{"interface-keyed map"})
			}
			sort.SliceStable(ents, func(a, b int) bool {
				if numeric {
					return ents[a].kn < ents[b].kn
				}
				return ents[a].ks < ents[b].ks
			})
			for j, en := range ents {
				if j > 0 {
					out = strConcat(out, Str{S: " "})
				}
				out = strConcat(out, e.fmtSymVal(verb, m.keys[en.i], u.Key(), depth+1))
				out = strConcat(out, Str{S: ":"})
				out = strConcat(out, e.fmtSymVal(verb, m.vals[en.i], u.Elem(), depth+1))
			}
		}
		return strConcat(out, Str{S: "]"})
	case *types.Struct:
		st := v.(Struct)
		out := Str{S: "{"}
		for i := 0; i < u.NumFields(); i++ {
			if i > 0 {
				out = strConcat(out, Str{S: " "})
			}
			ft := u.Field(i).Type()
			if !exportedName(u.Field(i).Name()) {
				// fmt cannot call methods of values reached through unexported fields
				if e.methodOf(ft, "Error") != nil || e.methodOf(ft, "String") != nil {
					panic(fmtUnsup{"unexported field with methods"})
				}
			}
			out = strConcat(out, e.fmtSymVal(verb, st[i], ft, depth+1))
		}
		return strConcat(out, Str{S: "}"})
	case *types.Pointer:
		p, _ := v.(*Value)
		if p == nil {
			return Str{S: "<nil>"}
		}
		if depth == 0 {
			switch u.Elem().Underlying().(type) {
			case *types.Struct, *types.Slice, *types.Array, *types.Map:
				return strConcat(Str{S: "&"}, e.fmtSymVal(verb, *p, u.Elem(), depth+1))
			}
		}
		panic(fmtUnsup{"pointer value prints an address"})
	case *types.Interface:
		if v == nil {
			return Str{S: "<nil>"}
		}
	}
	panic(fmtUnsup{"kind " + t.String()})
}

// fmtSymFormat handles formats made of literal text and the plain verbs %v %s %d (and %%).
func (e *Engine) fmtSymFormat(f string, args []Value) (Str, bool) {
	out := Str{}
	ai := 0
	for i := 0; i < len(f); i++ {
		if f[i] != '%' {
			j := strings.IndexByte(f[i:], '%')
			if j < 0 {
				j = len(f) - i
			}
			out = strConcat(out, Str{S: f[i : i+j]})
			i += j - 1
			continue
		}
		i++
		if i >= len(f) {
			return Str{}, false
		}
		switch f[i] {
		case '%':
			out = strConcat(out, Str{S: "%"})
		case 'v', 's', 'd':
			if ai >= len(args) {
				return Str{}, false
			}
			s, ok := e.fmtSymTop(f[i], args[ai])
			if !ok {
				return Str{}, false
			}
			ai++
			out = strConcat(out, s)
		default:
			return Str{}, false
		}
	}
	if ai != len(args) {
		return Str{}, false
	}
	return out, true
}

// imprecise records that a placeholder text stands in for a formatted value on this path (error
// messages with operands outside the formatter model); reported under models_used.
func (e *Engine) imprecise(what string) { e.modelsSeen["placeholder:"+what]++ }
