package main

import (
	"fmt"
	"strings"
)

// Term is an SMT term (Bool if W==0, else BitVec W).
type Term struct {
	Op   string
	W    int
	Args []*Term
	Val  uint64
	Name string
	I, J int
	s    string
}

func mask(w int) uint64 {
	if w >= 64 {
		return ^uint64(0)
	}
	return (uint64(1) << uint(w)) - 1
}

func bvConst(w int, v uint64) *Term { return &Term{Op: "bvconst", W: w, Val: v & mask(w)} }
func boolConst(b bool) *Term {
	if b {
		return tTrue
	}
	return tFalse
}

var tTrue = &Term{Op: "true"}
var tFalse = &Term{Op: "false"}

func mkVar(name string, w int) *Term { return &Term{Op: "var", W: w, Name: name} }

func (t *Term) isConst() bool { return t.Op == "bvconst" || t.Op == "true" || t.Op == "false" }

func mk(op string, w int, args ...*Term) *Term { return &Term{Op: op, W: w, Args: args} }

func mkNot(a *Term) *Term {
	switch a.Op {
	case "true":
		return tFalse
	case "false":
		return tTrue
	case "not":
		return a.Args[0]
	}
	return mk("not", 0, a)
}
func mkAnd(a, b *Term) *Term {
	if a.Op == "true" {
		return b
	}
	if b.Op == "true" {
		return a
	}
	if a.Op == "false" || b.Op == "false" {
		return tFalse
	}
	return mk("and", 0, a, b)
}
func mkOr(a, b *Term) *Term {
	if a.Op == "false" {
		return b
	}
	if b.Op == "false" {
		return a
	}
	if a.Op == "true" || b.Op == "true" {
		return tTrue
	}
	return mk("or", 0, a, b)
}
func mkEq(a, b *Term) *Term {
	if a == b {
		return tTrue
	}
	if a.Op == "bvconst" && b.Op == "bvconst" {
		return boolConst(a.Val == b.Val)
	}
	if a.W == 0 && a.isConst() && b.isConst() {
		return boolConst(a.Op == b.Op)
	}
	return mk("=", 0, a, b)
}
func mkIte(c, a, b *Term) *Term {
	if c.Op == "true" {
		return a
	}
	if c.Op == "false" {
		return b
	}
	if a == b {
		return a
	}
	return mk("ite", a.W, c, a, b)
}
func mkExtract(hi, lo int, a *Term) *Term {
	if a.Op == "bvconst" {
		return bvConst(hi-lo+1, a.Val>>uint(lo))
	}
	if lo == 0 && hi == a.W-1 {
		return a
	}
	// extract of zext/sext where fully inside the original
	if (a.Op == "zext" || a.Op == "sext") && hi < a.Args[0].W {
		return mkExtract(hi, lo, a.Args[0])
	}
	t := mk("extract", hi-lo+1, a)
	t.I, t.J = hi, lo
	return t
}
func mkZext(w int, a *Term) *Term {
	if w == a.W {
		return a
	}
	if a.Op == "bvconst" {
		return bvConst(w, a.Val)
	}
	t := mk("zext", w, a)
	t.I = w - a.W
	return t
}
func mkSext(w int, a *Term) *Term {
	if w == a.W {
		return a
	}
	if a.Op == "bvconst" {
		v := a.Val
		if a.W < 64 && v&(1<<uint(a.W-1)) != 0 {
			v |= ^mask(a.W)
		}
		return bvConst(w, v)
	}
	t := mk("sext", w, a)
	t.I = w - a.W
	return t
}

func (t *Term) String() string {
	if t.s != "" {
		return t.s
	}
	var s string
	switch t.Op {
	case "true", "false":
		s = t.Op
	case "var":
		s = t.Name
	case "bvconst":
		if t.W%4 == 0 {
			s = fmt.Sprintf("#x%0*x", t.W/4, t.Val)
		} else {
			s = fmt.Sprintf("#b%0*b", t.W, t.Val)
		}
	case "extract":
		s = fmt.Sprintf("((_ extract %d %d) %s)", t.I, t.J, t.Args[0])
	case "zext":
		s = fmt.Sprintf("((_ zero_extend %d) %s)", t.I, t.Args[0])
	case "sext":
		s = fmt.Sprintf("((_ sign_extend %d) %s)", t.I, t.Args[0])
	default:
		var b strings.Builder
		b.WriteString("(")
		b.WriteString(t.Op)
		for _, a := range t.Args {
			b.WriteString(" ")
			b.WriteString(a.String())
		}
		b.WriteString(")")
		s = b.String()
	}
	t.s = s
	return s
}

func (t *Term) vars(m map[string]int) {
	if t.Op == "var" {
		m[t.Name] = t.W
		return
	}
	for _, a := range t.Args {
		a.vars(m)
	}
}
