package main

import (
	"fmt"
	"go/token"
	"go/types"
	"regexp"
	"strconv"
	"strings"

	"golang.org/x/tools/go/ssa"
)

const (
	tokenGTR = token.GTR
	tokenLSS = token.LSS
)

type intrinsic func(e *Engine, args []Value) Value

type nativeRegexp struct{ re *regexp.Regexp }

var intrinsics = map[string]intrinsic{}

const twigPkg = "github.com/semihalev/twig."

func init() {
	for k, v := range map[string]intrinsic{
		"strings.Index":       mStringsIndex,
		"strings.IndexByte":   mStringsIndexByte,
		"strings.Contains":    func(e *Engine, a []Value) Value { return Bool{V: mIndex(e, a[0].(Str), a[1].(Str)) >= 0} },
		"strings.ContainsAny": mStringsContainsAny,
		"strings.ContainsRune": func(e *Engine, a []Value) Value {
			r := a[1].(Int)
			s := a[0].(Str)
			// ASCII rune only
			for i := 0; i < s.Len(); i++ {
				if e.Branch(mkEq(mkZext(32, s.byteAt(i).term()), r.term())) {
					return Bool{V: true}
				}
			}
			return Bool{V: false}
		},
		"strings.HasPrefix": func(e *Engine, a []Value) Value {
			s, p := a[0].(Str), a[1].(Str)
			if s.Len() < p.Len() {
				return Bool{V: false}
			}
			return fromTermB(strEq(s.slice(0, p.Len()), p))
		},
		"strings.HasSuffix": func(e *Engine, a []Value) Value {
			s, p := a[0].(Str), a[1].(Str)
			if s.Len() < p.Len() {
				return Bool{V: false}
			}
			return fromTermB(strEq(s.slice(s.Len()-p.Len(), s.Len()), p))
		},
		"strings.TrimSpace": func(e *Engine, a []Value) Value { return mTrim(e, a[0].(Str), " \t\n\v\f\r", true, true) },
		"strings.TrimLeft":  func(e *Engine, a []Value) Value { return mTrim(e, a[0].(Str), cutsetOf(e, a[1]), true, false) },
		"strings.TrimRight": func(e *Engine, a []Value) Value { return mTrim(e, a[0].(Str), cutsetOf(e, a[1]), false, true) },
		"strings.Trim":      func(e *Engine, a []Value) Value { return mTrim(e, a[0].(Str), cutsetOf(e, a[1]), true, true) },
		"strings.ToLower":   mToLower,
		"strings.ReplaceAll": func(e *Engine, a []Value) Value {
			s, old, nw := a[0].(Str), a[1].(Str), a[2].(Str)
			if old.Len() == 0 {
				// the new string goes before every character and at the end: operands made concrete
				cs, _ := e.concStrFork(s, "")
				cn, _ := e.concStrFork(nw, "")
				return Str{S: strings.ReplaceAll(cs, "", cn)}
			}
			out := Str{}
			rest := s
			for {
				i := mIndex(e, rest, old)
				if i < 0 {
					break
				}
				out = strConcat(strConcat(out, rest.slice(0, i)), nw)
				rest = rest.slice(i+old.Len(), rest.Len())
			}
			return strConcat(out, rest)
		},
		"strings.Join": func(e *Engine, a []Value) Value {
			xs, sep := a[0].(Slice), a[1].(Str)
			out := Str{}
			for i := 0; i < xs.Len; i++ {
				if i > 0 {
					out = strConcat(out, sep)
				}
				out = strConcat(out, (*xs.A)[xs.Off+i].(Str))
			}
			return out
		},
		"strings.SplitN": mSplitN,
		"strings.Count": func(e *Engine, a []Value) Value {
			s, sub := a[0].(Str), a[1].(Str)
			if sub.Len() == 0 {
				return mkInt(64, uint64(len(e.decodeRunes(s))+1))
			}
			n := 0
			rest := s
			for {
				i := mIndex(e, rest, sub)
				if i < 0 {
					break
				}
				n++
				rest = rest.slice(i+sub.Len(), rest.Len())
			}
			return mkInt(64, uint64(n))
		},
		"strings.LastIndex": func(e *Engine, a []Value) Value {
			s, sub := a[0].(Str), a[1].(Str)
			m := sub.Len()
			for i := s.Len() - m; i >= 0; i-- {
				if e.Branch(strEq(s.slice(i, i+m), sub)) {
					return mkInt(64, uint64(i))
				}
			}
			return mkInt(64, ^uint64(0))
		},
		"strings.Compare": func(e *Engine, a []Value) Value {
			x, y := a[0].(Str), a[1].(Str)
			if x.isC() && y.isC() {
				return mkInt(64, uint64(int64(strings.Compare(x.S, y.S))))
			}
			lt, eq := strLess(x, y)
			return fromTermI(mkIte(lt, bvConst(64, ^uint64(0)), mkIte(eq, bvConst(64, 0), bvConst(64, 1))))
		},
		"strings.EqualFold": func(e *Engine, a []Value) Value {
			x, y := mToLower(e, []Value{a[0]}).(Str), mToLower(e, []Value{a[1]}).(Str)
			return fromTermB(strEq(x, y))
		},
		"strings.Split": func(e *Engine, a []Value) Value {
			return mSplitN(e, []Value{a[0], a[1], mkInt(64, ^uint64(0))})
		},

		"(*sync.Pool).Get":        mPoolGet,
		"(*sync.Pool).Put":        mPoolPut,
		"(*sync.RWMutex).Lock":    func(e *Engine, a []Value) Value { e.mLock(a[0].(*Value), true); return nil },
		"(*sync.RWMutex).Unlock":  func(e *Engine, a []Value) Value { e.mUnlock(a[0].(*Value), true); return nil },
		"(*sync.RWMutex).RLock":   func(e *Engine, a []Value) Value { e.mLock(a[0].(*Value), false); return nil },
		"(*sync.RWMutex).RUnlock": func(e *Engine, a []Value) Value { e.mUnlock(a[0].(*Value), false); return nil },
		"(*sync.Mutex).Lock":      func(e *Engine, a []Value) Value { e.mLock(a[0].(*Value), true); return nil },
		"(*sync.Mutex).Unlock":    func(e *Engine, a []Value) Value { e.mUnlock(a[0].(*Value), true); return nil },
		twigPkg + "symParallel":   mParallel,

		"encoding/gob.Register": mNop,
		"time.Now": func(e *Engine, a []Value) Value {
			e.clock++
			return Struct{mkInt(64, 0), mkInt(64, uint64(63_845_000_000+e.clock)), (*Value)(nil)}
		},
		"internal/abi.NoEscape": func(e *Engine, a []Value) Value { return a[0] },
		"internal/bytealg.MakeNoZero": func(e *Engine, a []Value) Value {
			n := e.concInt(a[0])
			if n < 0 || n > 1<<47 {
				e.goPanicStr("makeslice: len out of range")
			}
			if n > 1<<24 {
				panic(pathEnd{"unsupported", "huge allocation"})
			}
			arr := make([]Value, n)
			for i := range arr {
				arr[i] = mkInt(8, 0)
			}
			return Slice{A: &arr, Len: n, Cap: n}
		},
		"regexp.MustCompile": func(e *Engine, a []Value) Value {
			p := a[0].(Str)
			if !p.isC() {
				panic(unsupported("symbolic regexp pattern"))
			}
			return nativeRegexp{regexp.MustCompile(p.S)}
		},
		"(*regexp.Regexp).ReplaceAllString": func(e *Engine, a []Value) Value {
			re := a[0].(nativeRegexp)
			src, _ := e.concStrFork(a[1], "")
			repl, _ := e.concStrFork(a[2], "")
			return Str{S: re.re.ReplaceAllString(src, repl)}
		},
		"(*sync.Once).Do": func(e *Engine, a []Value) Value {
			p := a[0].(*Value)
			if e.onceDone == nil {
				e.onceDone = map[*Value]bool{}
			}
			if !e.onceDone[p] {
				e.onceDone[p] = true
				e.callFn(a[1], nil)
			}
			return nil
		},
		"errors.Is":   mErrorsIs,
		"errors.As":   mErrorsAs,
		"fmt.Errorf":  mErrorf,
		"fmt.Sprintf": func(e *Engine, a []Value) Value { return mFormat(e, a) },
		"fmt.Sprint": func(e *Engine, a []Value) Value {
			// operands: concrete values are formatted natively; a symbolic string operand is spliced in
			out := Str{}
			s := a[0].(Slice)
			prevString := true
			for i := 0; i < s.Len; i++ {
				x := (*s.A)[s.Off+i]
				if it, ok := x.(Iface); ok {
					if sv, ok := it.V.(Str); ok {
						out = strConcat(out, sv)
						prevString = true
						continue
					}
				}
				n, ok := e.toNative(x)
				if !ok {
					panic(unsupported("fmt.Sprint of a symbolic non-string operand"))
				}
				if i > 0 && !prevString {
					out = strConcat(out, Str{S: " "})
				}
				out = strConcat(out, Str{S: fmt.Sprint(n)})
				prevString = false
			}
			return out
		},

		twigPkg + "symObserve": func(e *Engine, a []Value) Value {
			if e.vector != nil {
				e.observed = append(e.observed, a[0].(Str).S+"="+e.obsString(a[1]))
			}
			return nil
		},
		twigPkg + "symPoolModel": func(e *Engine, a []Value) Value {
			e.poolModel = e.concInt(a[0])
			return nil
		},
		twigPkg + "symString": func(e *Engine, a []Value) Value {
			n := e.concInt(a[0])
			if e.vector != nil {
				b := make([]byte, n)
				for i := range b {
					b[i] = byte(e.nextVec())
				}
				return Str{S: string(b)}
			}
			s := Str{S: strings.Repeat("?", n), Sym: make([]*Term, n)}
			for i := range s.Sym {
				s.Sym[i] = e.newSym(8, "b")
			}
			if n == 0 {
				s.Sym = nil
			}
			return s
		},
		twigPkg + "symStringIn": func(e *Engine, a []Value) Value {
			n := e.concInt(a[0])
			set := a[1].(Str).S
			if e.vector != nil {
				b := make([]byte, n)
				for i := range b {
					b[i] = byte(e.nextVec())
					if strings.IndexByte(set, b[i]) < 0 {
						panic(pathEnd{"infeasible", "byte outside alphabet"})
					}
				}
				return Str{S: string(b)}
			}
			if n == 0 {
				return Str{}
			}
			s := Str{S: strings.Repeat("?", n), Sym: make([]*Term, n)}
			for i := range s.Sym {
				s.Sym[i] = e.newSym(8, "b")
				e.assume(inSet(s.Sym[i], set))
			}
			return s
		},
		twigPkg + "symChoice": func(e *Engine, a []Value) Value {
			n := e.concInt(a[0])
			if e.vector != nil {
				v := e.nextVec()
				if v >= uint64(n) {
					panic(pathEnd{"infeasible", "choice out of range"})
				}
				return mkInt(64, v)
			}
			t := e.newSym(64, "c")
			e.assume(mk("bvult", 0, t, bvConst(64, uint64(n))))
			f0 := e.forks
			v := e.Concretize(Int{W: 64, T: t})
			e.enumForks += e.forks - f0
			e.forks = f0
			return mkInt(64, v)
		},
		twigPkg + "symByte": func(e *Engine, a []Value) Value {
			if e.vector != nil {
				return mkInt(8, e.nextVec())
			}
			return Int{W: 8, T: e.newSym(8, "b")}
		},
		twigPkg + "symInt": func(e *Engine, a []Value) Value {
			if e.vector != nil {
				return mkInt(64, e.nextVec())
			}
			return Int{W: 64, T: e.newSym(64, "i")}
		},
		twigPkg + "symBool": func(e *Engine, a []Value) Value {
			if e.vector != nil {
				return Bool{V: e.nextVec() != 0}
			}
			return Bool{T: e.newSym(0, "p")}
		},
		twigPkg + "symAssume": func(e *Engine, a []Value) Value {
			b := a[0].(Bool)
			if b.T == nil {
				if !b.V {
					panic(pathEnd{"infeasible", "assume false"})
				}
				return nil
			}
			if e.solver.Check(b.T) == "unsat" {
				panic(pathEnd{"infeasible", "assume"})
			}
			e.assume(b.T)
			return nil
		},
		twigPkg + "symAssert": func(e *Engine, a []Value) Value {
			b := a[0].(Bool)
			id := a[1].(Str).S
			if b.T == nil {
				if !b.V {
					if e.vector != nil {
						e.observed = append(e.observed, "FAIL:"+id)
					}
					e.reportViolation(id, nil)
				}
				return nil
			}
			neg := mkNot(b.T)
			if r := e.solver.Check(neg); r == "sat" {
				e.reportViolation(id, neg)
			} else if r != "unsat" {
				e.reportKind("unknown", id, nil)
			}
			if e.solver.Check(b.T) == "unsat" {
				panic(pathEnd{"ok", "assert always fails on this path"})
			}
			e.assume(b.T)
			return nil
		},
		twigPkg + "symMapAdversary": func(e *Engine, a []Value) Value {
			e.mapAdversary = a[0].(Bool).V
			return nil
		},
		twigPkg + "symMarkReadonly": func(e *Engine, a []Value) Value {
			e.markReadonly(a[0], a[1].(Str).S)
			return nil
		},
		twigPkg + "symMarkShared": func(e *Engine, a []Value) Value {
			it := a[0].(Iface)
			e.markShared(it.V, it.T, a[1].(Str).S)
			return nil
		},
		twigPkg + "symConcurrentPhase": func(e *Engine, a []Value) Value {
			e.ls.on = a[0].(Bool).V
			if e.ls.on {
				// package-level state of the code under test is shared by every goroutine of the process
				for g, cell := range e.globals {
					if g.Pkg == e.pkg && !strings.HasPrefix(g.Name(), "vh") && !strings.HasPrefix(g.Name(), "init$") {
						e.markShared(cell, g.Type(), "global "+g.Name())
					}
				}
			}
			return nil
		},
		twigPkg + "symTag": func(e *Engine, a []Value) Value {
			e.tags = append(e.tags, a[0].(Str).S)
			if e.vector != nil {
				e.observed = append(e.observed, "tag:"+a[0].(Str).S)
			}
			return nil
		},
		twigPkg + "symCover": func(e *Engine, a []Value) Value {
			e.covered[a[0].(Str).S]++
			e.pathCover = append(e.pathCover, a[0].(Str).S)
			if e.vector != nil {
				e.observed = append(e.observed, "cover:"+a[0].(Str).S)
			}
			return nil
		},
		twigPkg + "symParam": func(e *Engine, a []Value) Value {
			if v, ok := e.params[a[0].(Str).S]; ok {
				return mkInt(64, uint64(v))
			}
			return a[1]
		},
	} {
		intrinsics[k] = v
	}
}

func mNop(e *Engine, a []Value) Value { return nil }

func mIndex(e *Engine, s, sub Str) int {
	m := sub.Len()
	for i := 0; i+m <= s.Len(); i++ {
		if e.Branch(strEq(s.slice(i, i+m), sub)) {
			return i
		}
	}
	return -1
}

func mStringsIndex(e *Engine, a []Value) Value {
	return mkInt(64, uint64(int64(mIndex(e, a[0].(Str), a[1].(Str)))))
}
func mStringsIndexByte(e *Engine, a []Value) Value {
	s := a[0].(Str)
	c := a[1].(Int)
	for i := 0; i < s.Len(); i++ {
		if e.Branch(mkEq(s.byteAt(i).term(), c.term())) {
			return mkInt(64, uint64(i))
		}
	}
	return mkInt(64, ^uint64(0))
}
func mStringsContainsAny(e *Engine, a []Value) Value {
	s, chars := a[0].(Str), a[1].(Str)
	for i := 0; i < s.Len(); i++ {
		b := s.byteAt(i).term()
		c := tFalse
		for j := 0; j < chars.Len(); j++ {
			c = mkOr(c, mkEq(b, chars.byteAt(j).term()))
		}
		if e.Branch(c) {
			return Bool{V: true}
		}
	}
	return Bool{V: false}
}

func inSet(b *Term, set string) *Term {
	c := tFalse
	for j := 0; j < len(set); j++ {
		c = mkOr(c, mkEq(b, bvConst(8, uint64(set[j]))))
	}
	return c
}

// ASCII cutset trim. (Non-ASCII whitespace of TrimSpace is NOT modelled in the prototype.)
func mTrim(e *Engine, s Str, set string, left, right bool) Value {
	lo, hi := 0, s.Len()
	if left {
		for lo < hi && e.Branch(inSet(s.byteAt(lo).term(), set)) {
			lo++
		}
	}
	if right {
		for hi > lo && e.Branch(inSet(s.byteAt(hi-1).term(), set)) {
			hi--
		}
	}
	return s.slice(lo, hi)
}

func mToLower(e *Engine, a []Value) Value {
	s := a[0].(Str)
	if s.isC() {
		return Str{S: strings.ToLower(s.S)}
	}
	r := Str{S: s.S, Sym: make([]*Term, s.Len())}
	bs := []byte(s.S)
	for i := 0; i < s.Len(); i++ {
		b := s.byteAt(i)
		if b.T == nil {
			if b.V >= 'A' && b.V <= 'Z' {
				bs[i] = byte(b.V) + 32
			}
			continue
		}
		// ASCII-only model: bytes >= 0x80 left unchanged (valid for ToLower on invalid/other bytes only approximately)
		isUp := mkAnd(mk("bvuge", 0, b.T, bvConst(8, 'A')), mk("bvule", 0, b.T, bvConst(8, 'Z')))
		r.Sym[i] = mkIte(isUp, mk("bvadd", 8, b.T, bvConst(8, 32)), b.T)
	}
	r.S = string(bs)
	return r
}

func strSliceVal(parts []Str) Value {
	arr := make([]Value, len(parts))
	for i, p := range parts {
		arr[i] = p
	}
	return Slice{A: &arr, Len: len(arr), Cap: len(arr)}
}

// cutsetOf: the cutset argument of the Trim family; a symbolic cutset is made concrete (forks)
func cutsetOf(e *Engine, v Value) string {
	c, _ := e.concStrFork(v, "")
	return c
}

func mSplitN(e *Engine, a []Value) Value {
	s, sep := a[0].(Str), a[1].(Str)
	n := int(int64(a[2].(Int).V))
	if n == 0 {
		return Slice{Nil: true}
	}
	if sep.Len() == 0 {
		// explodes s into its characters: operand made concrete
		cs, _ := e.concStrFork(s, "")
		var ps []Str
		for _, p := range strings.SplitN(cs, "", n) {
			ps = append(ps, Str{S: p})
		}
		return strSliceVal(ps)
	}
	var parts []Str
	rest := s
	for n < 0 || len(parts) < n-1 {
		i := mIndex(e, rest, sep)
		if i < 0 {
			break
		}
		parts = append(parts, rest.slice(0, i))
		rest = rest.slice(i+sep.Len(), rest.Len())
	}
	parts = append(parts, rest)
	return strSliceVal(parts)
}

func poolNew(p *Value) Value {
	for _, f := range (*p).(Struct) {
		switch f.(type) {
		case *ssa.Function, *Closure:
			return f
		}
	}
	return nil
}

// sync.Pool models (symPoolModel): 0 = the runtime's behaviour on one P without GC: a private slot
// filled by the first Put and emptied by the next Get, behind it a LIFO stack; 1 = plain LIFO stack;
// 2 = FIFO queue. The object order is the only freedom the property-relevant code can observe.
func mPoolGet(e *Engine, a []Value) Value {
	p := a[0].(*Value)
	if e.par != nil && e.par.poolYield {
		e.yield()
	}
	if e.poolModel == 0 {
		if v, ok := e.poolPrivate[p]; ok {
			delete(e.poolPrivate, p)
			e.ownPooled(v, false)
			return v
		}
	}
	st := e.pools[p]
	if len(st) > 0 {
		var v Value
		if e.poolModel == 2 {
			v = st[0]
			e.pools[p] = st[1:]
		} else {
			v = st[len(st)-1]
			e.pools[p] = st[:len(st)-1]
		}
		e.ownPooled(v, false)
		return v
	}
	nf := poolNew(p)
	if f, ok := nf.(*ssa.Function); ok && f == nil || nf == nil {
		return Iface{}
	}
	return e.callFn(nf, nil)
}
func mPoolPut(e *Engine, a []Value) Value {
	p := a[0].(*Value)
	if e.par != nil && e.par.poolYield {
		e.yield()
	}
	if it, ok := a[1].(Iface); ok {
		if pv, ok := it.V.(*Value); ok {
			if lbl, ro := e.readonly[pv]; ro {
				e.reportKind("frame", "sync.Pool.Put of read-only "+lbl+" at "+e.where(), nil)
			}
		}
	}
	// the same object handed back twice without a Get in between: the pool would give it to two owners
	if it, ok := a[1].(Iface); ok {
		if pv, ok := it.V.(*Value); ok {
			dup := false
			if q, ok := e.poolPrivate[p]; ok {
				if qi, ok := q.(Iface); ok && qi.V == Value(pv) {
					dup = true
				}
			}
			for _, q := range e.pools[p] {
				if qi, ok := q.(Iface); ok && qi.V == Value(pv) {
					dup = true
				}
			}
			if dup {
				e.reportKind("ownership", "sync.Pool.Put of an object that is already in the pool (released twice), in "+e.curFunc(), nil)
			}
		}
	}
	if e.poolModel == 0 {
		if _, ok := e.poolPrivate[p]; !ok {
			if e.poolPrivate == nil {
				e.poolPrivate = map[*Value]Value{}
			}
			e.poolPrivate[p] = a[1]
			e.ownPooled(a[1], true)
			return nil
		}
	}
	e.pools[p] = append(e.pools[p], a[1])
	e.ownPooled(a[1], true)
	return nil
}

// ownPooled marks (in=true) or unmarks the memory reachable from an object handed to sync.Pool.Put:
// until Get returns it, it belongs to the pool, i.e. to whichever goroutine takes it next. Any access
// to it by the releasing call is a use-after-release (ownership violation). Only tracked during the
// concurrent phase of a discipline harness.
func (e *Engine) ownPooled(v Value, in bool) {
	if !e.ls.on && in {
		return
	}
	if e.inPool == nil {
		e.inPool = map[*Value]bool{}
	}
	seen := map[*Value]bool{}
	var walk func(v Value, depth int)
	mark := func(c *Value) bool {
		if c == nil || seen[c] {
			return false
		}
		seen[c] = true
		if in {
			e.inPool[c] = true
		} else {
			delete(e.inPool, c)
		}
		return true
	}
	walk = func(v Value, depth int) {
		switch x := v.(type) {
		case Iface:
			walk(x.V, depth)
		case *Value:
			// only the pooled object itself: objects it merely points to are not handed to the pool
			if depth == 0 && mark(x) {
				walk(*x, 1)
			}
		case Struct:
			for i := range x {
				if mark(&x[i]) {
					walk(x[i], depth+1)
				}
			}
		case Array:
			for i := range x {
				if mark(&x[i]) {
					walk(x[i], depth+1)
				}
			}
		case Slice:
			// the backing array a pooled object keeps is reused by the next owner
			if x.Nil || x.A == nil {
				return
			}
			for i := 0; i < x.Cap && x.Off+i < len(*x.A); i++ {
				c := &(*x.A)[x.Off+i]
				if mark(c) {
					if s, ok := (*c).(Struct); ok {
						for j := range s {
							mark(&s[j])
						}
					}
				}
			}
		}
	}
	walk(v, 0)
}

func (e *Engine) nextVec() uint64 {
	if e.vecPos >= len(e.vector) {
		return 0
	}
	v := e.vector[e.vecPos]
	e.vecPos++
	return v
}

// obsString renders an observed value the way the native harness does (%q for strings, %v otherwise).
func (e *Engine) obsString(v Value) string {
	if it, ok := v.(Iface); ok {
		if it.T == nil {
			return "<nil>"
		}
		switch x := it.V.(type) {
		case Str:
			if x.isC() {
				return strconv.Quote(x.S)
			}
			return "<sym>"
		case Int:
			if b, ok := it.T.Underlying().(*types.Basic); ok && b.Kind() == types.Int {
				return e.valString(x)
			}
			return "?"
		case Bool:
			return e.valString(x)
		}
		if e.methodOf(it.T, "Error") != nil {
			return "<err>"
		}
		return "?"
	}
	return e.valString(v)
}

func (e *Engine) valString(v Value) string {
	switch v := v.(type) {
	case Iface:
		if v.T == nil {
			return "<nil>"
		}
		return e.valString(v.V)
	case Str:
		if v.isC() {
			return v.S
		}
		return "<sym:" + v.S + ">"
	case Int:
		if v.T == nil {
			return fmt.Sprint(signExt(v.V, v.W))
		}
		return "<symint>"
	case Bool:
		if v.T == nil {
			return fmt.Sprint(v.V)
		}
		return "<symbool>"
	}
	return fmt.Sprintf("<%T>", v)
}

func (e *Engine) toNative(v Value) (interface{}, bool) {
	switch v := v.(type) {
	case Iface:
		if v.T == nil {
			return nil, true
		}
		if m := e.methodOf(v.T, "Error"); m != nil {
			if s, ok := e.call(m, []Value{v.V}, nil).(Str); ok && s.isC() {
				return fmt.Errorf("%s", s.S), true
			}
			return nil, false
		}
		return e.toNative(v.V)
	case Str:
		if v.isC() {
			return v.S, true
		}
	case Int:
		if v.T == nil {
			return int(signExt(v.V, v.W)), true
		}
	case Bool:
		if v.T == nil {
			return v.V, true
		}
	case Float:
		return v.V, true
	case nil:
		return nil, true
	}
	return nil, false
}

func mFormat(e *Engine, a []Value) Str {
	f := a[0].(Str).S
	var native []interface{}
	allOK := true
	var parts []string
	if len(a) > 1 {
		s := a[1].(Slice)
		for i := 0; i < s.Len; i++ {
			x := (*s.A)[s.Off+i]
			parts = append(parts, e.valString(x))
			n, ok := e.toNative(x)
			if !ok {
				// containers: []interface{}, map[string]interface{} and typed variants print like their native counterparts
				n, ok = e.nativeOf(x)
			}
			if !ok {
				allOK = false
			}
			native = append(native, n)
		}
	}
	if allOK {
		return Str{S: fmt.Sprintf(f, native...)}
	}
	// symbolic operands: build the text symbolically where the format is plain
	if len(a) > 1 {
		s := a[1].(Slice)
		if r, ok := e.fmtSymFormat(f, (*s.A)[s.Off:s.Off+s.Len]); ok {
			return r
		}
	}
	e.imprecise("fmt: " + f)
	return Str{S: f + " :: " + strings.Join(parts, ",")}
}

var errorStringType types.Type

func wrapArgIndex(f string) int {
	arg := 0
	for i := 0; i < len(f); i++ {
		if f[i] != '%' {
			continue
		}
		i++
		for i < len(f) && strings.IndexByte("+-# 0123456789.", f[i]) >= 0 {
			i++
		}
		if i >= len(f) {
			break
		}
		if f[i] == '%' {
			continue
		}
		if f[i] == 'w' {
			return arg
		}
		arg++
	}
	return -1
}

var wrapErrorType types.Type

func (e *Engine) methodOf(t types.Type, name string) *ssa.Function {
	ms := e.prog.MethodSets.MethodSet(t)
	for i := 0; i < ms.Len(); i++ {
		if ms.At(i).Obj().Name() == name {
			return e.prog.MethodValue(ms.At(i))
		}
	}
	return nil
}

func mErrorsIs(e *Engine, a []Value) Value {
	err, target := a[0].(Iface), a[1].(Iface)
	var rec func(err Iface) bool
	rec = func(err Iface) bool {
		for {
			if err.T == nil {
				return target.T == nil
			}
			if target.T != nil && types.Identical(err.T, target.T) && types.Comparable(err.T) {
				if e.BranchB(e.ifaceEq(err, target)) {
					return true
				}
			}
			if m := e.methodOf(err.T, "Is"); m != nil {
				if e.BranchB(e.call(m, []Value{err.V, target}, nil).(Bool)) {
					return true
				}
			}
			u := e.methodOf(err.T, "Unwrap")
			if u == nil {
				return false
			}
			r := e.call(u, []Value{err.V}, nil)
			switch r := r.(type) {
			case Iface:
				if r.T == nil {
					return false
				}
				err = r
			case Slice:
				for i := 0; i < r.Len; i++ {
					if rec((*r.A)[r.Off+i].(Iface)) {
						return true
					}
				}
				return false
			default:
				return false
			}
		}
	}
	return Bool{V: rec(err)}
}

func mErrorf(e *Engine, a []Value) Value {
	msg := mFormat(e, a)
	if wi := wrapArgIndex(a[0].(Str).S); wi >= 0 {
		args := a[1].(Slice)
		if wi < args.Len {
			if inner, ok := (*args.A)[args.Off+wi].(Iface); ok && inner.T != nil {
				if wrapErrorType == nil {
					wrapErrorType = types.NewPointer(e.prog.ImportedPackage("fmt").Type("wrapError").Type())
				}
				cell := new(Value)
				*cell = Struct{msg, inner}
				return Iface{T: wrapErrorType, V: cell}
			}
		}
	}
	if errorStringType == nil {
		ep := e.prog.ImportedPackage("errors")
		errorStringType = types.NewPointer(ep.Type("errorString").Type())
	}
	cell := new(Value)
	*cell = Struct{msg}
	return Iface{T: errorStringType, V: cell}
}

// mErrorsAs models errors.As: walks the Unwrap chain; the first error whose dynamic type is assignable
// to the target's element type is stored into the target.
func mErrorsAs(e *Engine, a []Value) Value {
	err := a[0].(Iface)
	target := a[1].(Iface)
	if target.T == nil {
		e.goPanicStr("errors: target cannot be nil")
	}
	pt, ok := target.T.Underlying().(*types.Pointer)
	tp, ok2 := target.V.(*Value)
	if !ok || !ok2 || tp == nil {
		e.goPanicStr("errors: target must be a non-nil pointer")
	}
	elem := pt.Elem()
	var rec func(err Iface) bool
	rec = func(err Iface) bool {
		for {
			if err.T == nil {
				return false
			}
			if it, isI := elem.Underlying().(*types.Interface); isI {
				if types.Implements(err.T, it) {
					storeInto(tp, err)
					return true
				}
			} else if types.Identical(err.T, elem) {
				storeInto(tp, err.V)
				return true
			}
			if am := e.methodOf(err.T, "As"); am != nil {
				if e.BranchB(e.call(am, []Value{err.V, target}, nil).(Bool)) {
					return true
				}
			}
			u := e.methodOf(err.T, "Unwrap")
			if u == nil {
				return false
			}
			switch r := e.call(u, []Value{err.V}, nil).(type) {
			case Iface:
				if r.T == nil {
					return false
				}
				err = r
			case Slice:
				for i := 0; i < r.Len; i++ {
					if rec((*r.A)[r.Off+i].(Iface)) {
						return true
					}
				}
				return false
			default:
				return false
			}
		}
	}
	return Bool{V: rec(err)}
}
