package main

import (
	"bufio"
	"fmt"
	"io"
	"os/exec"
	"regexp"
	"strings"
	"time"
)

type Solver struct {
	cmd      *exec.Cmd
	in       io.WriteCloser
	out      *bufio.Reader
	declared map[string]bool
	Queries  int
	Time     time.Duration
	log      io.Writer
	hist     []string
}

func NewSolver(alt string) *Solver {
	cmd := exec.Command("z3", "-in")
	if alt != "" {
		f := strings.Fields(alt)
		cmd = exec.Command(f[0], f[1:]...)
	}
	in, _ := cmd.StdinPipe()
	outp, _ := cmd.StdoutPipe()
	if err := cmd.Start(); err != nil {
		panic(err)
	}
	s := &Solver{cmd: cmd, in: in, out: bufio.NewReader(outp), declared: map[string]bool{}}
	return s
}

func (s *Solver) trace(dir, str string) {
	if len(str) > 300 {
		str = str[:300] + "..."
	}
	s.hist = append(s.hist, dir+str)
	if len(s.hist) > 120 {
		s.hist = s.hist[len(s.hist)-120:]
	}
}

func (s *Solver) send(str string) {
	s.trace("> ", str)
	if s.log != nil {
		fmt.Fprintln(s.log, str)
	}
	io.WriteString(s.in, str+"\n")
}

// solverFault: the dialogue with the solver process went wrong (error line, unexpected answer, exit).
// The process is no longer in a known state: the engine replaces it before running another path.
type solverFault struct{ msg string }

func (s *Solver) readLine() string {
	l, err := s.out.ReadString('\n')
	if err != nil {
		panic(solverFault{"solver died: " + err.Error()})
	}
	s.trace("< ", strings.TrimSpace(l))
	if strings.HasPrefix(strings.TrimSpace(l), "(error") {
		panic(solverFault{"solver error: " + strings.TrimSpace(l) + "\n" + strings.Join(s.hist, "\n")})
	}
	return strings.TrimSpace(l)
}

func (s *Solver) Kill() {
	s.in.Close()
	s.cmd.Process.Kill()
	s.cmd.Wait()
}

func (s *Solver) Reset() {
	s.send("(reset)")
	s.declared = map[string]bool{}
}

func (s *Solver) declare(t *Term) {
	m := map[string]int{}
	t.vars(m)
	for n, w := range m {
		if !s.declared[n] {
			s.declared[n] = true
			if w == 0 {
				s.send(fmt.Sprintf("(declare-const %s Bool)", n))
			} else {
				s.send(fmt.Sprintf("(declare-const %s (_ BitVec %d))", n, w))
			}
		}
	}
}

func (s *Solver) Assert(t *Term) {
	s.declare(t)
	s.send("(assert " + t.String() + ")")
}

// Check returns "sat","unsat","unknown"
func (s *Solver) Check(extra *Term) string {
	t0 := time.Now()
	s.Queries++
	if extra != nil {
		s.declare(extra)
		s.send("(push)")
		s.send("(assert " + extra.String() + ")")
	}
	s.send("(check-sat)")
	r := s.readLine()
	for strings.HasPrefix(r, "(error") || r == "" {
		if strings.HasPrefix(r, "(error") {
			panic(solverFault{"solver error: " + r})
		}
		r = s.readLine()
	}
	if extra != nil {
		s.send("(pop)")
	}
	s.Time += time.Since(t0)
	if r != "sat" && r != "unsat" && r != "unknown" {
		panic(solverFault{"solver protocol: unexpected answer to check-sat: " + r})
	}
	return r
}

// Model value of a bitvector term under pc ∧ extra (must be sat). returns value.
func (s *Solver) Eval(extra *Term, t *Term) (uint64, bool) {
	s.declare(t)
	if extra != nil {
		s.declare(extra)
		s.send("(push)")
		s.send("(assert " + extra.String() + ")")
	}
	s.Queries++
	t0 := time.Now()
	s.send("(check-sat)")
	r := s.readLine()
	ok := false
	var v uint64
	if r != "sat" && r != "unsat" && r != "unknown" {
		panic(solverFault{"solver protocol: unexpected answer to check-sat: " + r})
	}
	if r == "sat" {
		s.send("(get-value (" + t.String() + "))")
		// the answer may be pretty-printed over several lines: read until parentheses balance
		depth, l := 0, ""
		for {
			ln := s.readLine()
			l += ln + " "
			depth += strings.Count(ln, "(") - strings.Count(ln, ")")
			if depth <= 0 {
				break
			}
		}
		l = strings.TrimSpace(l)
		// ((term value)) : the value is the last token
		i := strings.LastIndex(l, "#")
		if i >= 0 && !strings.ContainsAny(l[i:], " (") {
			tok := strings.TrimRight(l[i:], ")")
			if tok[1] == 'x' {
				fmt.Sscanf(tok[2:], "%x", &v)
			} else {
				fmt.Sscanf(tok[2:], "%b", &v)
			}
			ok = true
		} else if strings.HasSuffix(l, " true))") {
			v, ok = 1, true
		} else if strings.HasSuffix(l, " false))") {
			v, ok = 0, true
		} else {
			panic(solverFault{"solver protocol: cannot parse get-value answer: " + l})
		}
	}
	if extra != nil {
		s.send("(pop)")
	}
	s.Time += time.Since(t0)
	return v, ok
}

// Model returns one consistent model for the given variables under pc ∧ extra.
func (s *Solver) Model(extra *Term, vars []*Term) ([]uint64, bool) {
	if extra != nil {
		s.declare(extra)
		s.send("(push)")
		s.send("(assert " + extra.String() + ")")
	}
	for _, v := range vars {
		s.declare(v)
	}
	s.Queries++
	t0 := time.Now()
	s.send("(check-sat)")
	r := s.readLine()
	if r != "sat" && r != "unsat" && r != "unknown" {
		panic(solverFault{"solver protocol: unexpected answer to check-sat: " + r + "\n" + strings.Join(s.hist, "\n")})
	}
	var out []uint64
	ok := r == "sat"
	if ok && len(vars) > 0 {
		var names []string
		for _, v := range vars {
			names = append(names, v.Name)
		}
		s.send("(get-value (" + strings.Join(names, " ") + "))")
		// read until parentheses balance
		depth, text := 0, ""
		for {
			l := s.readLine()
			text += l + " "
			depth += strings.Count(l, "(") - strings.Count(l, ")")
			if depth <= 0 {
				break
			}
		}
		vals := map[string]uint64{}
		for _, m := range modelRe.FindAllStringSubmatch(text, -1) {
			var v uint64
			switch {
			case m[2] == "true":
				v = 1
			case m[2] == "false":
				v = 0
			case strings.HasPrefix(m[2], "#x"):
				fmt.Sscanf(m[2][2:], "%x", &v)
			case strings.HasPrefix(m[2], "#b"):
				fmt.Sscanf(m[2][2:], "%b", &v)
			}
			vals[m[1]] = v
		}
		for _, v := range vars {
			out = append(out, vals[v.Name])
		}
	}
	if extra != nil {
		s.send("(pop)")
	}
	s.Time += time.Since(t0)
	return out, ok
}

var modelRe = regexp.MustCompile(`\((s[0-9]+_[0-9]+)\s+(#x[0-9a-fA-F]+|#b[01]+|true|false)\)`)

func (s *Solver) Push() { s.send("(push)") }
func (s *Solver) Pop()  { s.send("(pop)") }
func (s *Solver) Close() {
	s.send("(exit)")
	s.in.Close()
	s.cmd.Wait()
}
