package main

import (
	"go/token"
	"go/types"

	"golang.org/x/tools/go/ssa"
)

// Channels. A channel is a queue with a capacity and a closed flag. Receiving from an empty open
// channel blocks the thread (two-thread mode: the other thread runs; otherwise the path ends as a
// deadlock: "all goroutines are asleep"). Sending to a full or unbuffered channel needs a rendezvous
// with a receiver, which is not modelled: such a send ends the path as unsupported. select is not
// modelled.
type ChanV struct {
	buf    []Value
	cap    int
	closed bool
}

func (e *Engine) chanRecv(c *ChanV, block bool) (Value, bool, bool) {
	e.yield()
	for {
		if c == nil {
			if !block {
				return nil, false, false
			}
			e.blockOn("receive from a nil channel")
			continue
		}
		if len(c.buf) > 0 {
			v := c.buf[0]
			c.buf = c.buf[1:]
			return v, true, true
		}
		if c.closed {
			return nil, false, true
		}
		if !block {
			return nil, false, false
		}
		e.blockOn("receive from an empty channel")
	}
}

func (e *Engine) chanSend(c *ChanV, v Value, block bool) bool {
	e.yield()
	if c == nil {
		if !block {
			return false
		}
		e.blockOn("send on a nil channel")
	}
	if c.closed {
		e.goPanicStr("send on closed channel")
	}
	if len(c.buf) < c.cap {
		c.buf = append(c.buf, copyVal(v))
		return true
	}
	if !block {
		return false
	}
	panic(unsupported("send on a full or unbuffered channel (rendezvous is not modelled)"))
}

func (e *Engine) chanClose(c *ChanV) {
	if c == nil {
		e.goPanicStr("close of nil channel")
	}
	if c.closed {
		e.goPanicStr("close of closed channel")
	}
	c.closed = true
	e.yield()
}

func (e *Engine) evalRecv(ins *ssa.UnOp, x Value) Value {
	c, _ := x.(*ChanV)
	v, ok, _ := e.chanRecv(c, true)
	if !ok {
		v = zero(ins.X.Type().Underlying().(*types.Chan).Elem())
	}
	if ins.CommaOk {
		return Tuple{v, Bool{V: ok}}
	}
	return v
}

var _ = token.ARROW

// reflect on channels
func init() {
	chanOf := func(e *Engine, v RV, op string) (*ChanV, *types.Chan) {
		ct, ok := v.T.Underlying().(*types.Chan)
		if !ok {
			e.reflectPanic("call of reflect.Value." + op + " on " + e.rvKind(v).String() + " Value")
		}
		c, _ := v.V.(*ChanV)
		return c, ct
	}
	recv := func(block bool, name string) intrinsic {
		return func(e *Engine, a []Value) Value {
			v := a[0].(RV)
			c, ct := chanOf(e, v, name)
			if ct.Dir() == types.SendOnly {
				e.reflectPanic("recv on send-only channel")
			}
			x, ok, _ := e.chanRecv(c, block)
			if !ok {
				if !block && (c == nil || !c.closed) {
					return Tuple{RV{}, Bool{V: false}}
				}
				return Tuple{RV{T: ct.Elem(), V: zero(ct.Elem()), Valid: true}, Bool{V: false}}
			}
			return Tuple{RV{T: ct.Elem(), V: x, Valid: true}, Bool{V: true}}
		}
	}
	intrinsics["(reflect.Value).TryRecv"] = recv(false, "TryRecv")
	intrinsics["(reflect.Value).Recv"] = recv(true, "Recv")
	send := func(block bool, name string) intrinsic {
		return func(e *Engine, a []Value) Value {
			v := a[0].(RV)
			c, ct := chanOf(e, v, name)
			if ct.Dir() == types.RecvOnly {
				e.reflectPanic("send on recv-only channel")
			}
			ok := e.chanSend(c, a[1].(RV).V, block)
			if block {
				return nil
			}
			return Bool{V: ok}
		}
	}
	intrinsics["(reflect.Value).TrySend"] = send(false, "TrySend")
	intrinsics["(reflect.Value).Send"] = send(true, "Send")
	intrinsics["(reflect.Value).Close"] = func(e *Engine, a []Value) Value {
		v := a[0].(RV)
		c, ct := chanOf(e, v, "Close")
		if ct.Dir() == types.RecvOnly {
			e.reflectPanic("close of receive-only channel")
		}
		e.chanClose(c)
		return nil
	}
	intrinsics["(reflect.Value).Cap"] = func(e *Engine, a []Value) Value {
		v := a[0].(RV)
		switch x := v.V.(type) {
		case Slice:
			return mkInt(64, uint64(x.Cap))
		case Array:
			return mkInt(64, uint64(len(x)))
		case *ChanV:
			if x == nil {
				return mkInt(64, 0)
			}
			return mkInt(64, uint64(x.cap))
		}
		e.reflectPanic("call of reflect.Value.Cap on " + e.rvKind(v).String() + " Value")
		return nil
	}
}
