package main

import (
	"fmt"
	"go/types"
	"path/filepath"
	"sort"
	"strings"
	"syscall"
)

// In-memory model of the file system behind package os, for the loaders that read and write files
// (FileSystemLoader, CompiledLoader). Paths are concrete strings (a symbolic path is made concrete by
// forking); file contents may be symbolic; modification times are 64-bit integers that may be
// symbolic (os.Chtimes) and otherwise come from the model clock that time.Now advances. Natively the
// harness works in a temporary directory.

type fsNode struct {
	dir   bool
	data  Str
	mtime Int // unix seconds
}

type fsInfoV struct {
	name string
	n    *fsNode
	size int
}

func (e *Engine) fsPath(v Value) string {
	p, _ := e.concStrFork(v, "")
	if p == "" {
		return ""
	}
	if !strings.HasPrefix(p, "/") {
		p = "/cwd/" + p
	}
	return filepath.Clean(p)
}

func (e *Engine) fsInit() {
	if e.fs == nil {
		e.fs = map[string]*fsNode{"/": {dir: true}, "/cwd": {dir: true}, "/symfs": {dir: true}}
	}
}

func (e *Engine) fsNow() Int {
	e.clock++
	return mkInt(64, uint64(63_845_000_000+e.clock-unixToInternal))
}

var fsTypes struct {
	pathErr, errno, fileStat, dirent types.Type
}

func (e *Engine) fsErr(op, path string, errno syscall.Errno) Value {
	if fsTypes.pathErr == nil {
		fsTypes.pathErr = types.NewPointer(e.prog.ImportedPackage("io/fs").Type("PathError").Type())
		fsTypes.errno = e.prog.ImportedPackage("syscall").Type("Errno").Type()
	}
	cell := new(Value)
	*cell = Struct{Str{S: op}, Str{S: path}, Iface{T: fsTypes.errno, V: mkInt(64, uint64(errno))}}
	return Iface{T: fsTypes.pathErr, V: cell}
}

// errnoOf finds the syscall.Errno inside an error produced by the model (directly or wrapped in a PathError).
func errnoOf(v Value) (syscall.Errno, bool) {
	it, ok := v.(Iface)
	if !ok || it.T == nil {
		return 0, false
	}
	if fsTypes.errno != nil && types.Identical(it.T, fsTypes.errno) {
		return syscall.Errno(it.V.(Int).V), true
	}
	if fsTypes.pathErr != nil && types.Identical(it.T, fsTypes.pathErr) {
		if p, ok := it.V.(*Value); ok && p != nil {
			return errnoOf((*p).(Struct)[2])
		}
	}
	return 0, false
}

func (e *Engine) fsInfo(path string, n *fsNode) Value {
	if fsTypes.fileStat == nil {
		fsTypes.fileStat = types.NewPointer(e.prog.ImportedPackage("os").Type("fileStat").Type())
	}
	return Iface{T: fsTypes.fileStat, V: &fsInfoV{name: filepath.Base(path), n: n, size: n.data.Len()}}
}

func (e *Engine) fsParentOK(path string) bool {
	p := e.fs[filepath.Dir(path)]
	return p != nil && p.dir
}

func init() {
	errIface := func(e *Engine, v Value) Value { return v }
	_ = errIface
	intrinsics["os.Getwd"] = func(e *Engine, a []Value) Value { return Tuple{Str{S: "/cwd"}, Iface{}} }
	intrinsics["os.MkdirTemp"] = func(e *Engine, a []Value) Value {
		e.fsInit()
		e.fsTmpN++
		p := fmt.Sprintf("/symfs/tmp%d", e.fsTmpN)
		e.fs[p] = &fsNode{dir: true, mtime: e.fsNow()}
		return Tuple{Str{S: p}, Iface{}}
	}
	mkdirAll := func(e *Engine, a []Value) Value {
		e.fsInit()
		p := e.fsPath(a[0])
		if p == "" {
			return e.fsErr("mkdir", p, syscall.ENOENT)
		}
		parts := strings.Split(strings.TrimPrefix(p, "/"), "/")
		cur := ""
		for _, part := range parts {
			cur += "/" + part
			n := e.fs[cur]
			if n == nil {
				e.fs[cur] = &fsNode{dir: true, mtime: e.fsNow()}
			} else if !n.dir {
				return e.fsErr("mkdir", cur, syscall.ENOTDIR)
			}
		}
		return Iface{}
	}
	intrinsics["os.MkdirAll"] = mkdirAll
	intrinsics["os.Mkdir"] = func(e *Engine, a []Value) Value {
		e.fsInit()
		p := e.fsPath(a[0])
		if e.fs[p] != nil {
			return e.fsErr("mkdir", p, syscall.EEXIST)
		}
		if !e.fsParentOK(p) {
			return e.fsErr("mkdir", p, syscall.ENOENT)
		}
		e.fs[p] = &fsNode{dir: true, mtime: e.fsNow()}
		return Iface{}
	}
	intrinsics["os.WriteFile"] = func(e *Engine, a []Value) Value {
		e.fsInit()
		p := e.fsPath(a[0])
		if n := e.fs[p]; n != nil && n.dir {
			return e.fsErr("open", p, syscall.EISDIR)
		}
		if p == "" || !e.fsParentOK(p) {
			return e.fsErr("open", p, syscall.ENOENT)
		}
		s := a[1].(Slice)
		bs := make([]Int, s.Len)
		for i := range bs {
			bs[i] = (*s.A)[s.Off+i].(Int)
		}
		e.fs[p] = &fsNode{data: strFromBytes(bs), mtime: e.fsNow()}
		return Iface{}
	}
	intrinsics["os.ReadFile"] = func(e *Engine, a []Value) Value {
		e.fsInit()
		p := e.fsPath(a[0])
		n := e.fs[p]
		if n == nil {
			return Tuple{Slice{Nil: true}, e.fsErr("open", p, syscall.ENOENT)}
		}
		if n.dir {
			return Tuple{Slice{Nil: true}, e.fsErr("read", p, syscall.EISDIR)}
		}
		arr := make([]Value, n.data.Len())
		for i := range arr {
			arr[i] = n.data.byteAt(i)
		}
		return Tuple{Slice{A: &arr, Len: len(arr), Cap: len(arr)}, Iface{}}
	}
	stat := func(e *Engine, a []Value) Value {
		e.fsInit()
		p := e.fsPath(a[0])
		n := e.fs[p]
		if n == nil {
			return Tuple{Iface{}, e.fsErr("stat", p, syscall.ENOENT)}
		}
		return Tuple{e.fsInfo(p, n), Iface{}}
	}
	intrinsics["os.Stat"] = stat
	intrinsics["os.Lstat"] = stat
	intrinsics["os.Remove"] = func(e *Engine, a []Value) Value {
		e.fsInit()
		p := e.fsPath(a[0])
		if e.fs[p] == nil {
			return e.fsErr("remove", p, syscall.ENOENT)
		}
		for q := range e.fs {
			if strings.HasPrefix(q, p+"/") {
				return e.fsErr("remove", p, syscall.ENOTEMPTY)
			}
		}
		delete(e.fs, p)
		return Iface{}
	}
	intrinsics["os.RemoveAll"] = func(e *Engine, a []Value) Value {
		e.fsInit()
		p := e.fsPath(a[0])
		for q := range e.fs {
			if q == p || strings.HasPrefix(q, p+"/") {
				delete(e.fs, q)
			}
		}
		return Iface{}
	}
	intrinsics["os.Chtimes"] = func(e *Engine, a []Value) Value {
		e.fsInit()
		p := e.fsPath(a[0])
		n := e.fs[p]
		if n == nil {
			return e.fsErr("chtimes", p, syscall.ENOENT)
		}
		ext := a[2].(Struct)[1].(Int)
		if ext.T == nil {
			n.mtime = mkInt(64, ext.V-uint64(unixToInternal))
		} else {
			n.mtime = Int{W: 64, T: mk("bvsub", 64, ext.T, bvConst(64, uint64(unixToInternal)))}
		}
		return Iface{}
	}
	intrinsics["os.ReadDir"] = func(e *Engine, a []Value) Value {
		e.fsInit()
		p := e.fsPath(a[0])
		n := e.fs[p]
		if n == nil {
			return Tuple{Slice{Nil: true}, e.fsErr("open", p, syscall.ENOENT)}
		}
		if !n.dir {
			return Tuple{Slice{Nil: true}, e.fsErr("readdirent", p, syscall.ENOTDIR)}
		}
		if fsTypes.dirent == nil {
			fsTypes.dirent = types.NewPointer(e.prog.ImportedPackage("os").Type("unixDirent").Type())
		}
		var names []string
		for q := range e.fs {
			if q != p && filepath.Dir(q) == p {
				names = append(names, q)
			}
		}
		sort.Strings(names)
		arr := make([]Value, len(names))
		for i, q := range names {
			arr[i] = Iface{T: fsTypes.dirent, V: &fsInfoV{name: filepath.Base(q), n: e.fs[q]}}
		}
		return Tuple{Slice{A: &arr, Len: len(arr), Cap: len(arr)}, Iface{}}
	}
	isErrno := func(want ...syscall.Errno) intrinsic {
		return func(e *Engine, a []Value) Value {
			en, ok := errnoOf(a[0])
			if !ok {
				return Bool{V: false}
			}
			for _, w := range want {
				if en == w {
					return Bool{V: true}
				}
			}
			return Bool{V: false}
		}
	}
	intrinsics["os.IsNotExist"] = isErrno(syscall.ENOENT)
	intrinsics["os.IsExist"] = isErrno(syscall.EEXIST, syscall.ENOTEMPTY)
	intrinsics["os.IsPermission"] = isErrno(syscall.EACCES, syscall.EPERM)
	intrinsics["(syscall.Errno).Error"] = func(e *Engine, a []Value) Value {
		return Str{S: syscall.Errno(a[0].(Int).V).Error()}
	}
	for _, recv := range []string{"(*os.fileStat)", "(*os.unixDirent)"} {
		intrinsics[recv+".Name"] = func(e *Engine, a []Value) Value { return Str{S: a[0].(*fsInfoV).name} }
		intrinsics[recv+".IsDir"] = func(e *Engine, a []Value) Value { return Bool{V: a[0].(*fsInfoV).n.dir} }
	}
	mode := func(n *fsNode) uint64 {
		if n.dir {
			return 1<<31 | 0755
		}
		return 0644
	}
	intrinsics["(*os.fileStat).Size"] = func(e *Engine, a []Value) Value { return mkInt(64, uint64(a[0].(*fsInfoV).size)) }
	intrinsics["(*os.fileStat).Mode"] = func(e *Engine, a []Value) Value { return mkInt(32, mode(a[0].(*fsInfoV).n)) }
	intrinsics["(*os.unixDirent).Type"] = func(e *Engine, a []Value) Value {
		return mkInt(32, mode(a[0].(*fsInfoV).n)&(1<<31))
	}
	intrinsics["(*os.unixDirent).Info"] = func(e *Engine, a []Value) Value {
		v := a[0].(*fsInfoV)
		if fsTypes.fileStat == nil {
			fsTypes.fileStat = types.NewPointer(e.prog.ImportedPackage("os").Type("fileStat").Type())
		}
		return Tuple{Iface{T: fsTypes.fileStat, V: &fsInfoV{name: v.name, n: v.n, size: v.n.data.Len()}}, Iface{}}
	}
	intrinsics["(*os.fileStat).Sys"] = func(e *Engine, a []Value) Value { return Iface{} }
	intrinsics["(*os.fileStat).ModTime"] = func(e *Engine, a []Value) Value {
		m := a[0].(*fsInfoV).n.mtime
		if m.T == nil {
			return Struct{mkInt(64, 0), mkInt(64, m.V+uint64(unixToInternal)), (*Value)(nil)}
		}
		return Struct{mkInt(64, 0), Int{W: 64, T: mk("bvadd", 64, m.T, bvConst(64, uint64(unixToInternal)))}, (*Value)(nil)}
	}
}
