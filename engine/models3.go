package main

import (
	"go/types"
	"reflect"
)

// Models added for the second round of seeded changes: reflect.MapIter, sync.Map.

type mapIterV struct {
	m      *MapV
	order  []int
	pos    int
	kt, et types.Type
}

func (e *Engine) syncMapOf(p *Value) *MapV {
	e.yield() // every sync.Map operation is a synchronisation point
	if e.syncMaps == nil {
		e.syncMaps = map[*Value]*MapV{}
	}
	m := e.syncMaps[p]
	if m == nil {
		m = &MapV{idx: map[interface{}]int{}}
		e.syncMaps[p] = m
	}
	return m
}

func init() {
	intrinsics["(reflect.Value).MapRange"] = func(e *Engine, a []Value) Value {
		v := a[0].(RV)
		if e.rvKind(v) != reflect.Map {
			e.reflectPanic("reflect.Value.MapRange of non-map type " + e.rvKind(v).String())
		}
		mt := v.T.Underlying().(*types.Map)
		it := &mapIterV{m: v.V.(*MapV), pos: -1, kt: mt.Key(), et: mt.Elem()}
		if it.m != nil {
			if e.mapAdversary && it.m.n > 1 {
				it.order = e.permute(it.m)
			} else {
				for i := range it.m.keys {
					if !it.m.del[i] {
						it.order = append(it.order, i)
					}
				}
			}
		}
		return it
	}
	intrinsics["(*reflect.MapIter).Next"] = func(e *Engine, a []Value) Value {
		it := a[0].(*mapIterV)
		it.pos++
		// entries deleted during the iteration are not produced
		for it.pos < len(it.order) && it.m.del[it.order[it.pos]] {
			it.pos++
		}
		return Bool{V: it.pos < len(it.order)}
	}
	intrinsics["(*reflect.MapIter).Key"] = func(e *Engine, a []Value) Value {
		it := a[0].(*mapIterV)
		if it.pos < 0 || it.pos >= len(it.order) {
			e.reflectPanic("MapIter.Key called before Next or on exhausted iterator")
		}
		return RV{T: it.kt, V: it.m.keys[it.order[it.pos]], Valid: true}
	}
	intrinsics["(*reflect.MapIter).Value"] = func(e *Engine, a []Value) Value {
		it := a[0].(*mapIterV)
		if it.pos < 0 || it.pos >= len(it.order) {
			e.reflectPanic("MapIter.Value called before Next or on exhausted iterator")
		}
		return RV{T: it.et, V: copyVal(it.m.vals[it.order[it.pos]]), Valid: true}
	}

	// sync.Map: an association list per map object; single-threaded semantics (the lockset monitor
	// treats its operations as synchronised).
	intrinsics["(*sync.Map).Load"] = func(e *Engine, a []Value) Value {
		m := e.syncMapOf(a[0].(*Value))
		v, ok := e.mapGet(m, a[1])
		if !ok {
			return Tuple{Iface{}, Bool{V: false}}
		}
		return Tuple{v, Bool{V: true}}
	}
	intrinsics["(*sync.Map).Store"] = func(e *Engine, a []Value) Value {
		e.mapSet(e.syncMapOf(a[0].(*Value)), a[1], a[2])
		return nil
	}
	intrinsics["(*sync.Map).LoadOrStore"] = func(e *Engine, a []Value) Value {
		m := e.syncMapOf(a[0].(*Value))
		if v, ok := e.mapGet(m, a[1]); ok {
			return Tuple{v, Bool{V: true}}
		}
		e.mapSet(m, a[1], a[2])
		return Tuple{a[2], Bool{V: false}}
	}
	intrinsics["(*sync.Map).LoadAndDelete"] = func(e *Engine, a []Value) Value {
		m := e.syncMapOf(a[0].(*Value))
		v, ok := e.mapGet(m, a[1])
		if !ok {
			return Tuple{Iface{}, Bool{V: false}}
		}
		e.mapDelete(m, a[1])
		return Tuple{v, Bool{V: true}}
	}
	intrinsics["(*sync.Map).Delete"] = func(e *Engine, a []Value) Value {
		e.mapDelete(e.syncMapOf(a[0].(*Value)), a[1])
		return nil
	}
	intrinsics["(*sync.Map).Swap"] = func(e *Engine, a []Value) Value {
		m := e.syncMapOf(a[0].(*Value))
		v, ok := e.mapGet(m, a[1])
		e.mapSet(m, a[1], a[2])
		if !ok {
			return Tuple{Iface{}, Bool{V: false}}
		}
		return Tuple{v, Bool{V: true}}
	}
	intrinsics["(*sync.Map).Clear"] = func(e *Engine, a []Value) Value {
		delete(e.syncMaps, a[0].(*Value))
		return nil
	}
	intrinsics["(*sync.Map).Range"] = func(e *Engine, a []Value) Value {
		m := e.syncMapOf(a[0].(*Value))
		var order []int
		if e.mapAdversary && m.n > 1 {
			order = e.permute(m)
		} else {
			for i := range m.keys {
				if !m.del[i] {
					order = append(order, i)
				}
			}
		}
		for _, i := range order {
			if m.del[i] {
				continue
			}
			r := e.callFn(a[1], []Value{m.keys[i], m.vals[i]})
			if b, ok := r.(Bool); ok {
				if !e.Branch(b.term()) {
					break
				}
			}
		}
		return nil
	}
}
