package main

import (
	"go/types"
	"reflect"

	"golang.org/x/tools/go/ssa"
)

// Models added for the second round of seeded changes: reflect.MapIter, sync.Map.

type mapIterV struct {
	m      *MapV
	order  []int
	pos    int
	kt, et types.Type
}

func (e *Engine) syncMapOf(p *Value) *MapV {
	e.yield() // every sync.Map operation is a synchronisation point
	if e.syncMaps == nil {
		e.syncMaps = map[*Value]*MapV{}
	}
	m := e.syncMaps[p]
	if m == nil {
		m = &MapV{idx: map[interface{}]int{}}
		e.syncMaps[p] = m
	}
	return m
}

func init() {
	intrinsics["(reflect.Value).MapRange"] = func(e *Engine, a []Value) Value {
		v := a[0].(RV)
		if e.rvKind(v) != reflect.Map {
			e.reflectPanic("reflect.Value.MapRange of non-map type " + e.rvKind(v).String())
		}
		mt := v.T.Underlying().(*types.Map)
		it := &mapIterV{m: v.V.(*MapV), pos: -1, kt: mt.Key(), et: mt.Elem()}
		if it.m != nil {
			if e.mapAdversary && it.m.n > 1 {
				it.order = e.permute(it.m)
			} else {
				for i := range it.m.keys {
					if !it.m.del[i] {
						it.order = append(it.order, i)
					}
				}
			}
		}
		return it
	}
	intrinsics["(*reflect.MapIter).Next"] = func(e *Engine, a []Value) Value {
		it := a[0].(*mapIterV)
		it.pos++
		// entries deleted during the iteration are not produced
		for it.pos < len(it.order) && it.m.del[it.order[it.pos]] {
			it.pos++
		}
		return Bool{V: it.pos < len(it.order)}
	}
	intrinsics["(*reflect.MapIter).Key"] = func(e *Engine, a []Value) Value {
		it := a[0].(*mapIterV)
		if it.pos < 0 || it.pos >= len(it.order) {
			e.reflectPanic("MapIter.Key called before Next or on exhausted iterator")
		}
		return RV{T: it.kt, V: it.m.keys[it.order[it.pos]], Valid: true}
	}
	intrinsics["(*reflect.MapIter).Value"] = func(e *Engine, a []Value) Value {
		it := a[0].(*mapIterV)
		if it.pos < 0 || it.pos >= len(it.order) {
			e.reflectPanic("MapIter.Value called before Next or on exhausted iterator")
		}
		return RV{T: it.et, V: copyVal(it.m.vals[it.order[it.pos]]), Valid: true}
	}

	// sync.Map: an association list per map object; single-threaded semantics (the lockset monitor
	// treats its operations as synchronised).
	intrinsics["(*sync.Map).Load"] = func(e *Engine, a []Value) Value {
		m := e.syncMapOf(a[0].(*Value))
		v, ok := e.mapGet(m, a[1])
		if !ok {
			return Tuple{Iface{}, Bool{V: false}}
		}
		return Tuple{v, Bool{V: true}}
	}
	intrinsics["(*sync.Map).Store"] = func(e *Engine, a []Value) Value {
		e.mapSet(e.syncMapOf(a[0].(*Value)), a[1], a[2])
		return nil
	}
	intrinsics["(*sync.Map).LoadOrStore"] = func(e *Engine, a []Value) Value {
		m := e.syncMapOf(a[0].(*Value))
		if v, ok := e.mapGet(m, a[1]); ok {
			return Tuple{v, Bool{V: true}}
		}
		e.mapSet(m, a[1], a[2])
		return Tuple{a[2], Bool{V: false}}
	}
	intrinsics["(*sync.Map).LoadAndDelete"] = func(e *Engine, a []Value) Value {
		m := e.syncMapOf(a[0].(*Value))
		v, ok := e.mapGet(m, a[1])
		if !ok {
			return Tuple{Iface{}, Bool{V: false}}
		}
		e.mapDelete(m, a[1])
		return Tuple{v, Bool{V: true}}
	}
	intrinsics["(*sync.Map).Delete"] = func(e *Engine, a []Value) Value {
		e.mapDelete(e.syncMapOf(a[0].(*Value)), a[1])
		return nil
	}
	intrinsics["(*sync.Map).Swap"] = func(e *Engine, a []Value) Value {
		m := e.syncMapOf(a[0].(*Value))
		v, ok := e.mapGet(m, a[1])
		e.mapSet(m, a[1], a[2])
		if !ok {
			return Tuple{Iface{}, Bool{V: false}}
		}
		return Tuple{v, Bool{V: true}}
	}
	intrinsics["(*sync.Map).Clear"] = func(e *Engine, a []Value) Value {
		delete(e.syncMaps, a[0].(*Value))
		return nil
	}
	intrinsics["(*sync.Map).Range"] = func(e *Engine, a []Value) Value {
		m := e.syncMapOf(a[0].(*Value))
		var order []int
		if e.mapAdversary && m.n > 1 {
			order = e.permute(m)
		} else {
			for i := range m.keys {
				if !m.del[i] {
					order = append(order, i)
				}
			}
		}
		for _, i := range order {
			if m.del[i] {
				continue
			}
			r := e.callFn(a[1], []Value{m.keys[i], m.vals[i]})
			if b, ok := r.(Bool); ok {
				if !e.Branch(b.term()) {
					break
				}
			}
		}
		return nil
	}
}

// sync/atomic: sequentially consistent single operations on a cell; each is a synchronisation point
// for the interleaving exploration.
func init() {
	cell := func(e *Engine, v Value) *Value {
		p, ok := v.(*Value)
		if !ok || p == nil {
			e.goPanicStr("invalid memory address or nil pointer dereference (atomic)")
		}
		return p
	}
	for _, suf := range []string{"Pointer", "Int32", "Int64", "Uint32", "Uint64", "Uintptr"} {
		intrinsics["sync/atomic.Load"+suf] = func(e *Engine, a []Value) Value {
			e.yield()
			return copyVal(*cell(e, a[0]))
		}
		intrinsics["sync/atomic.Store"+suf] = func(e *Engine, a []Value) Value {
			e.yield()
			*cell(e, a[0]) = a[1]
			return nil
		}
		intrinsics["sync/atomic.Swap"+suf] = func(e *Engine, a []Value) Value {
			e.yield()
			c := cell(e, a[0])
			old := *c
			*c = a[1]
			return old
		}
		isPtr := suf == "Pointer"
		intrinsics["sync/atomic.CompareAndSwap"+suf] = func(e *Engine, a []Value) Value {
			e.yield()
			c := cell(e, a[0])
			eq := false
			if isPtr {
				eq = *c == a[1]
			} else {
				eq = e.Branch(mkEq((*c).(Int).term(), a[1].(Int).term()))
			}
			if eq {
				*c = a[2]
			}
			return Bool{V: eq}
		}
		if !isPtr {
			intrinsics["sync/atomic.Add"+suf] = func(e *Engine, a []Value) Value {
				e.yield()
				c := cell(e, a[0])
				x, d := (*c).(Int), a[1].(Int)
				var r Int
				if x.T == nil && d.T == nil {
					r = mkInt(x.W, x.V+d.V)
				} else {
					r = Int{W: x.W, T: mk("bvadd", x.W, x.term(), d.term())}
				}
				*c = r
				return r
			}
		}
	}
}

// runtime.GC: the only effect the interpreted program can observe is that sync.Pool contents are
// dropped (the runtime needs two collections to drop the victim cache as well; the model drops
// everything at once, and harnesses call it twice).
func init() {
	intrinsics["runtime.GC"] = func(e *Engine, a []Value) Value {
		for p, st := range e.pools {
			for _, v := range st {
				e.ownPooled(v, false)
			}
			delete(e.pools, p)
		}
		for p, v := range e.poolPrivate {
			e.ownPooled(v, false)
			delete(e.poolPrivate, p)
		}
		return nil
	}
}

// reflect.Value.Pointer / UnsafePointer: an identity number of the referenced object (the address of the
// interpreter's own cell, which is stable for the lifetime of the path and distinct per object).
func init() {
	ptrID := func(e *Engine, a []Value) Value {
		v := a[0].(RV)
		var id uintptr
		switch x := v.V.(type) {
		case Slice:
			if !x.Nil && x.A != nil && x.Off < len(*x.A) {
				id = reflect.ValueOf(&(*x.A)[x.Off]).Pointer()
			}
		case *MapV:
			if x != nil {
				id = reflect.ValueOf(x).Pointer()
			}
		case *Value:
			if x != nil {
				id = reflect.ValueOf(x).Pointer()
			}
		case *Closure:
			// a func value's Pointer is its code address: closures and method values of one function share it
			if x != nil {
				id = reflect.ValueOf(x.Fn).Pointer()
			}
		case *ssa.Function:
			if x != nil {
				id = reflect.ValueOf(x).Pointer()
			}
		default:
			e.reflectPanic("call of reflect.Value.Pointer on " + e.rvKind(v).String() + " Value")
		}
		return mkInt(64, uint64(id))
	}
	intrinsics["(reflect.Value).Pointer"] = ptrID
	intrinsics["(reflect.Value).UnsafePointer"] = ptrID
}
