package main

import (
	"fmt"
	"go/token"
	"go/types"
	"reflect"

	"golang.org/x/tools/go/ssa"
)

// Models added for the second round of seeded changes: reflect.MapIter, sync.Map.

type mapIterV struct {
	m      *MapV
	order  []int
	pos    int
	kt, et types.Type
}

func (e *Engine) syncMapOf(p *Value) *MapV {
	e.yield() // every sync.Map operation is a synchronisation point
	if e.syncMaps == nil {
		e.syncMaps = map[*Value]*MapV{}
	}
	m := e.syncMaps[p]
	if m == nil {
		m = &MapV{idx: map[interface{}]int{}}
		e.syncMaps[p] = m
	}
	return m
}

func init() {
	intrinsics["(reflect.Value).MapRange"] = func(e *Engine, a []Value) Value {
		v := a[0].(RV)
		if e.rvKind(v) != reflect.Map {
			e.reflectPanic("reflect.Value.MapRange of non-map type " + e.rvKind(v).String())
		}
		mt := v.T.Underlying().(*types.Map)
		it := &mapIterV{m: v.V.(*MapV), pos: -1, kt: mt.Key(), et: mt.Elem()}
		if it.m != nil {
			if e.mapAdversary && it.m.n > 1 {
				it.order = e.permute(it.m)
			} else {
				for i := range it.m.keys {
					if !it.m.del[i] {
						it.order = append(it.order, i)
					}
				}
			}
		}
		return it
	}
	intrinsics["(*reflect.MapIter).Next"] = func(e *Engine, a []Value) Value {
		it := a[0].(*mapIterV)
		it.pos++
		// entries deleted during the iteration are not produced
		for it.pos < len(it.order) && it.m.del[it.order[it.pos]] {
			it.pos++
		}
		return Bool{V: it.pos < len(it.order)}
	}
	intrinsics["(*reflect.MapIter).Key"] = func(e *Engine, a []Value) Value {
		it := a[0].(*mapIterV)
		if it.pos < 0 || it.pos >= len(it.order) {
			e.reflectPanic("MapIter.Key called before Next or on exhausted iterator")
		}
		return RV{T: it.kt, V: it.m.keys[it.order[it.pos]], Valid: true}
	}
	intrinsics["(*reflect.MapIter).Value"] = func(e *Engine, a []Value) Value {
		it := a[0].(*mapIterV)
		if it.pos < 0 || it.pos >= len(it.order) {
			e.reflectPanic("MapIter.Value called before Next or on exhausted iterator")
		}
		return RV{T: it.et, V: copyVal(it.m.vals[it.order[it.pos]]), Valid: true}
	}

	// sync.Map: an association list per map object; single-threaded semantics (the lockset monitor
	// treats its operations as synchronised).
	intrinsics["(*sync.Map).Load"] = func(e *Engine, a []Value) Value {
		m := e.syncMapOf(a[0].(*Value))
		v, ok := e.mapGet(m, a[1])
		if !ok {
			return Tuple{Iface{}, Bool{V: false}}
		}
		return Tuple{v, Bool{V: true}}
	}
	intrinsics["(*sync.Map).Store"] = func(e *Engine, a []Value) Value {
		e.mapSet(e.syncMapOf(a[0].(*Value)), a[1], a[2])
		return nil
	}
	intrinsics["(*sync.Map).LoadOrStore"] = func(e *Engine, a []Value) Value {
		m := e.syncMapOf(a[0].(*Value))
		if v, ok := e.mapGet(m, a[1]); ok {
			return Tuple{v, Bool{V: true}}
		}
		e.mapSet(m, a[1], a[2])
		return Tuple{a[2], Bool{V: false}}
	}
	intrinsics["(*sync.Map).LoadAndDelete"] = func(e *Engine, a []Value) Value {
		m := e.syncMapOf(a[0].(*Value))
		v, ok := e.mapGet(m, a[1])
		if !ok {
			return Tuple{Iface{}, Bool{V: false}}
		}
		e.mapDelete(m, a[1])
		return Tuple{v, Bool{V: true}}
	}
	intrinsics["(*sync.Map).Delete"] = func(e *Engine, a []Value) Value {
		e.mapDelete(e.syncMapOf(a[0].(*Value)), a[1])
		return nil
	}
	intrinsics["(*sync.Map).Swap"] = func(e *Engine, a []Value) Value {
		m := e.syncMapOf(a[0].(*Value))
		v, ok := e.mapGet(m, a[1])
		e.mapSet(m, a[1], a[2])
		if !ok {
			return Tuple{Iface{}, Bool{V: false}}
		}
		return Tuple{v, Bool{V: true}}
	}
	intrinsics["(*sync.Map).Clear"] = func(e *Engine, a []Value) Value {
		delete(e.syncMaps, a[0].(*Value))
		return nil
	}
	intrinsics["(*sync.Map).Range"] = func(e *Engine, a []Value) Value {
		m := e.syncMapOf(a[0].(*Value))
		var order []int
		if e.mapAdversary && m.n > 1 {
			order = e.permute(m)
		} else {
			for i := range m.keys {
				if !m.del[i] {
					order = append(order, i)
				}
			}
		}
		for _, i := range order {
			if m.del[i] {
				continue
			}
			r := e.callFn(a[1], []Value{m.keys[i], m.vals[i]})
			if b, ok := r.(Bool); ok {
				if !e.Branch(b.term()) {
					break
				}
			}
		}
		return nil
	}
}

// sync/atomic: sequentially consistent single operations on a cell; each is a synchronisation point
// for the interleaving exploration.
func init() {
	cell := func(e *Engine, v Value) *Value {
		p, ok := v.(*Value)
		if !ok || p == nil {
			e.goPanicStr("invalid memory address or nil pointer dereference (atomic)")
		}
		return p
	}
	for _, suf := range []string{"Pointer", "Int32", "Int64", "Uint32", "Uint64", "Uintptr"} {
		intrinsics["sync/atomic.Load"+suf] = func(e *Engine, a []Value) Value {
			e.yield()
			return copyVal(*cell(e, a[0]))
		}
		intrinsics["sync/atomic.Store"+suf] = func(e *Engine, a []Value) Value {
			e.yield()
			*cell(e, a[0]) = a[1]
			return nil
		}
		intrinsics["sync/atomic.Swap"+suf] = func(e *Engine, a []Value) Value {
			e.yield()
			c := cell(e, a[0])
			old := *c
			*c = a[1]
			return old
		}
		isPtr := suf == "Pointer"
		intrinsics["sync/atomic.CompareAndSwap"+suf] = func(e *Engine, a []Value) Value {
			e.yield()
			c := cell(e, a[0])
			eq := false
			if isPtr {
				eq = *c == a[1]
			} else {
				eq = e.Branch(mkEq((*c).(Int).term(), a[1].(Int).term()))
			}
			if eq {
				*c = a[2]
			}
			return Bool{V: eq}
		}
		if !isPtr {
			intrinsics["sync/atomic.Add"+suf] = func(e *Engine, a []Value) Value {
				e.yield()
				c := cell(e, a[0])
				x, d := (*c).(Int), a[1].(Int)
				var r Int
				if x.T == nil && d.T == nil {
					r = mkInt(x.W, x.V+d.V)
				} else {
					r = Int{W: x.W, T: mk("bvadd", x.W, x.term(), d.term())}
				}
				*c = r
				return r
			}
		}
	}
}

// runtime.GC: the only effect the interpreted program can observe is that sync.Pool contents are
// dropped (the runtime needs two collections to drop the victim cache as well; the model drops
// everything at once, and harnesses call it twice).
func init() {
	intrinsics["runtime.GC"] = func(e *Engine, a []Value) Value {
		for p, st := range e.pools {
			for _, v := range st {
				e.ownPooled(v, false)
			}
			delete(e.pools, p)
		}
		for p, v := range e.poolPrivate {
			e.ownPooled(v, false)
			delete(e.poolPrivate, p)
		}
		return nil
	}
}

// reflect.Value.Pointer / UnsafePointer: an identity number of the referenced object (the address of the
// interpreter's own cell, which is stable for the lifetime of the path and distinct per object).
func init() {
	ptrID := func(e *Engine, a []Value) Value {
		v := a[0].(RV)
		var id uintptr
		switch x := v.V.(type) {
		case Slice:
			if !x.Nil && x.A != nil && x.Off < len(*x.A) {
				id = reflect.ValueOf(&(*x.A)[x.Off]).Pointer()
			}
		case *MapV:
			if x != nil {
				id = reflect.ValueOf(x).Pointer()
			}
		case *Value:
			if x != nil {
				id = reflect.ValueOf(x).Pointer()
			}
		case *Closure:
			// a func value's Pointer is its code address: closures and method values of one function share it
			if x != nil {
				id = reflect.ValueOf(x.Fn).Pointer()
			}
		case *ssa.Function:
			if x != nil {
				id = reflect.ValueOf(x).Pointer()
			}
		default:
			e.reflectPanic("call of reflect.Value.Pointer on " + e.rvKind(v).String() + " Value")
		}
		return mkInt(64, uint64(id))
	}
	intrinsics["(reflect.Value).Pointer"] = ptrID
	intrinsics["(reflect.Value).UnsafePointer"] = ptrID
}

// math/rand (package-level, locked generator): the draw is an arbitrary value of the documented
// range; Intn panics on a non-positive bound as the real function does. Under a concrete vector the
// draw is 0 (the real draw is not an input of the harness; no check compares outputs that use it).
func init() {
	draw := func(e *Engine, w int, lo, hi *Term) Value { // lo <= r < hi (signed), hi nil = no upper bound
		if e.vector != nil {
			return mkInt(w, 0)
		}
		t := e.newSym(w, "rnd")
		c := mk("bvsge", 0, t, lo)
		if hi != nil {
			c = mkAnd(c, mk("bvslt", 0, t, hi))
		}
		e.assume(c)
		return Int{W: w, T: t}
	}
	intn := func(w int, name string) intrinsic {
		return func(e *Engine, a []Value) Value {
			n := a[0].(Int)
			if n.T == nil {
				if signExt(n.V, w) <= 0 {
					e.goPanicStr("invalid argument to " + name)
				}
				return draw(e, w, bvConst(w, 0), bvConst(w, n.V))
			}
			if e.Branch(mk("bvsle", 0, n.T, bvConst(w, 0))) {
				e.goPanicStr("invalid argument to " + name)
			}
			return draw(e, w, bvConst(w, 0), n.T)
		}
	}
	intrinsics["math/rand.Intn"] = intn(64, "Intn")
	intrinsics["math/rand.Int63n"] = intn(64, "Int63n")
	intrinsics["math/rand.Int31n"] = intn(32, "Int31n")
	intrinsics["math/rand.Int31"] = func(e *Engine, a []Value) Value { return draw(e, 32, bvConst(32, 0), nil) }
	intrinsics["math/rand.Int63"] = func(e *Engine, a []Value) Value { return draw(e, 64, bvConst(64, 0), nil) }
	intrinsics["math/rand.Int"] = func(e *Engine, a []Value) Value { return draw(e, 64, bvConst(64, 0), nil) }
}

// reflect.DeepEqual over the interpreter's own values (the library source pokes into the
// representation of reflect.Value, which the engine models abstractly). Same rules as the real one:
// nil and empty slices/maps differ, funcs are equal only when both nil, pointers by pointee,
// NaN != NaN; cyclic values are cut by a depth limit (unsupported beyond it).
func init() {
	var deep func(e *Engine, t types.Type, x, y Value, d int) *Term
	tt, ff := tTrue, tFalse
	deep = func(e *Engine, t types.Type, x, y Value, d int) *Term {
		if d > 40 {
			panic(unsupported("reflect.DeepEqual deeper than 40"))
		}
		switch xv := x.(type) {
		case Iface:
			yv := y.(Iface)
			if xv.T == nil || yv.T == nil {
				if xv.T == nil && yv.T == nil {
					return tt
				}
				return ff
			}
			if !types.Identical(xv.T, yv.T) {
				return ff
			}
			return deep(e, xv.T, xv.V, yv.V, d+1)
		case Slice:
			yv := y.(Slice)
			if xv.Nil != yv.Nil || xv.Len != yv.Len {
				return ff
			}
			if xv.Len == 0 || (xv.A == yv.A && xv.Off == yv.Off) {
				return tt
			}
			et := t.Underlying().(*types.Slice).Elem()
			r := tt
			for i := 0; i < xv.Len; i++ {
				r = mkAnd(r, deep(e, et, (*xv.A)[xv.Off+i], (*yv.A)[yv.Off+i], d+1))
			}
			return r
		case Array:
			yv := y.(Array)
			et := t.Underlying().(*types.Array).Elem()
			r := tt
			for i := range xv {
				r = mkAnd(r, deep(e, et, xv[i], yv[i], d+1))
			}
			return r
		case Struct:
			yv := y.(Struct)
			st, ok := t.Underlying().(*types.Struct)
			r := tt
			for i := range xv {
				var ft types.Type
				if ok && i < st.NumFields() {
					ft = st.Field(i).Type()
				}
				if ft == nil {
					panic(unsupported("reflect.DeepEqual on an engine-internal struct"))
				}
				r = mkAnd(r, deep(e, ft, xv[i], yv[i], d+1))
			}
			return r
		case *MapV:
			yv := y.(*MapV)
			if (xv == nil) != (yv == nil) {
				return ff
			}
			if xv == nil || xv == yv {
				return tt
			}
			if xv.n != yv.n {
				return ff
			}
			vt := t.Underlying().(*types.Map).Elem()
			r := tt
			for i, k := range xv.keys {
				if xv.del[i] {
					continue
				}
				ov, ok := e.mapGet(yv, k)
				if !ok {
					return ff
				}
				r = mkAnd(r, deep(e, vt, xv.vals[i], ov, d+1))
			}
			return r
		case *Value:
			yv := y.(*Value)
			if xv == yv {
				return tt
			}
			if xv == nil || yv == nil {
				return ff
			}
			pt, ok := t.Underlying().(*types.Pointer)
			if !ok {
				panic(unsupported("reflect.DeepEqual on " + t.String()))
			}
			return deep(e, pt.Elem(), *xv, *yv, d+1)
		case *ssa.Function:
			if yf, _ := y.(*ssa.Function); xv == nil && yf == nil {
				return tt
			}
			return ff
		case *Closure:
			if yc, _ := y.(*Closure); xv == nil && yc == nil {
				return tt
			}
			return ff
		case Int, Bool, Str, Float:
			return e.binop(token.EQL, t, x, y).(Bool).term()
		}
		panic(unsupported(fmt.Sprintf("reflect.DeepEqual on %T", x)))
	}
	intrinsics["reflect.DeepEqual"] = func(e *Engine, a []Value) Value {
		return fromTermB(deep(e, nil, a[0], a[1], 0))
	}
}
