#!/bin/bash
# usage: seedtest.sh <patch.diff> <property-id> [more property ids...]
# Applies a seeded change to /repo, runs the quick check(s), and always restores /repo.
set -u
patch=$1; shift
cd /repo || exit 2
if ! git diff --quiet; then echo "refusing: /repo has uncommitted changes"; exit 2; fi
git apply "$patch" || { echo "patch does not apply"; exit 2; }
trap 'git -C /repo checkout -- . ; git -C /repo clean -fdq -- . >/dev/null 2>&1' EXIT
GOFLAGS=-mod=mod GOPROXY=off go build ./... || { echo "BUILD FAILS with patch"; exit 2; }
for pid in "$@"; do
  echo "=== $pid"
  python3 /verif/check.py "$pid" --tier "${TIER:-quick}" 2>&1 | grep -v "^KNOWN-FINDING" | cut -c1-260 | head -${LINES_MAX:-12}
done
