#!/usr/bin/env python3
"""Regenerates MANIFEST.json from checks/*.json (claimed properties) and not_applicable.json."""
import json, glob, os
V = os.path.dirname(os.path.abspath(__file__))
props = [json.loads(l) for l in open(os.path.join(V, "properties.jsonl"))]
na = json.load(open(os.path.join(V, "not_applicable.json")))
checks = []
claimed = []
for p in props:
    f = os.path.join(V, "checks", p["id"] + ".json")
    if not os.path.exists(f) or p["id"] in na:
        continue
    c = json.load(open(f))
    claimed.append(p["id"])
    obls = "; ".join(o["id"] for o in c["obligations"])
    checks.append({
        "property_id": p["id"],
        "quick_cmd": "python3 /verif/check.py %s --tier quick" % p["id"],
        "thorough_cmd": "python3 /verif/check.py %s --tier thorough" % p["id"],
        "evidence_file": "/verif/evidence/%s.json" % p["id"],
        "replay_cmd_template": "python3 /verif/check.py --replay {path}",
        "engine": "symx",
        "level_claimed": {"category": "model_checking",
                          "text": c.get("level_text", "bounded symbolic execution of the real code: every path of the harness obligations (%s) inside the stated bounds is explored, each branch and each assertion decided by z3; holds for every input inside the bounds, says nothing outside them" % obls),
                          "design_ref": c.get("design_ref", "DESIGN.md §4 " + p["id"])},
        "level_note": c.get("level_note", "trusted: symx executor and its stdlib models (listed per run in the evidence), go/ssa, z3; bounds and assumptions are listed in checks/%s.json and repeated in the evidence" % p["id"]),
        "technique": c.get("technique", "symbolic execution of go/ssa of /repo with z3 (bounded, exhaustive path enumeration), native replay of counterexamples"),
    })
m = {
    "version": 1,
    "setup_cmd": "cd /verif/engine && GOFLAGS=-mod=mod GOPROXY=off go build -o /verif/bin/symx .",
    "hooks": {"guard": "verif-overlay",
              "enable": "no source hooks: harness files /verif/harness/zz_*.go are injected into package twig as overlays (go/packages Overlay for the symbolic run, go test -overlay for native replay); nothing is written to /repo",
              "baseline_off_cmd": "cd /repo && go test -vet=off -count=1 -timeout 25m ./...",
              "source_commits": [], "add_only": True},
    "engines": [{"name": "symx", "path": "/verif/engine", "serves_properties": claimed,
                 "kind_free_text": "symbolic executor for the go/ssa form of package twig (and the stdlib under it), SMT-LIB2 to z3 over a pipe, re-execution DFS over decision vectors, 16 workers; written for this task"}],
    "checks": checks,
    "notes": "Known findings (genuine defects recorded, not repaired) and fixed entries are in /verif/known_findings.json. fix: commits in /repo are listed there with their commit ids.",
    "not_applicable": [{"property_id": k, "reason": v} for k, v in na.items() if k not in claimed],
}
json.dump(m, open(os.path.join(V, "MANIFEST.json"), "w"), indent=1)
print("claimed:", claimed)
