#!/bin/bash
# Runs every claimed check at the given tier (default quick) and prints one line per property.
tier=${1:-quick}
rc=0
here=$(cd "$(dirname "$0")" && pwd)
for f in $here/checks/C*.json; do
  pid=$(basename "$f" .json)
  t0=$(date +%s)
  out=$(python3 $here/check.py "$pid" --tier "$tier" 2>&1); r=$?
  t1=$(date +%s)
  echo "$pid rc=$r $((t1-t0))s $(echo "$out" | grep '^SUMMARY' | sed 's/SUMMARY property=[A-Z0-9]* //')"
  echo "$out" | grep -E '^(VIOLATION|INCONCLUSIVE|UNCONFIRMED)' | cut -c1-220
  [ $r -ne 0 ] && rc=1
done
exit $rc
