#!/bin/bash
# usage: confirm_seed.sh <src-dir with patch.diff, zz_demo_test.go, meta.txt> <seed-id> <TestName>
# Confirms in a fresh scratch worktree that: the demo passes on the unchanged tree; with the patch the
# package builds, the existing suite passes, and the demo fails. Prints a verdict line.
src=$1; id=$2; tname=$3
wt=/tmp/cf-$id
git -C /repo worktree remove --force $wt >/dev/null 2>&1
git -C /repo worktree add -q --detach $wt HEAD || exit 2
export GOFLAGS=-mod=mod GOPROXY=off
cp $src/zz_demo_test.go $wt/
cd $wt
a=$(go test -vet=off -count=1 -run "^$tname\$" . 2>&1 | tail -1)
git apply $src/patch.diff || { echo "$id: patch does not apply"; exit 2; }
b=$(go build ./... 2>&1 | tail -1)
c=$(go test -vet=off -count=1 -run 'Test[^D]|TestD[^e]' . 2>&1 | tail -1)
d=$(go test -vet=off -count=1 -run "^$tname\$" . 2>&1 | tail -1)
echo "$id: demo-unchanged=[$a] build=[$b] suite-with-patch=[$c] demo-with-patch=[$d]"
cd /; git -C /repo worktree remove --force $wt
