package twig

// VH_C19_NumCarry: number_format on fractional values whose rounding at the requested precision
// carries into the next digit or into the integer part (and neighbours that do not): the digits
// are those of exact decimal rounding, with the thousands separator placed after the carry.
func VH_C19_NumCarry() {
	vals := []float64{1.999, 999.96, -0.996, 0.999, 9.9996, 1234.567, 1.004, 999999.999, -1.9999, 0.04, 19.98, 0.5004}
	decs := []int{2, 1, 2, 2, 3, 2, 2, 2, 3, 1, 1, 3}
	want := []string{"2.00", "1,000.0", "-1.00", "1.00", "10.000", "1,234.57", "1.00", "1,000,000.00", "-2.000", "0.0", "20.0", "0.500"}
	k := symChoice(12)
	out, err := vhR("{{ v|number_format(d) }}|{{ v|number_format(d, '.', ',') }}", map[string]interface{}{"v": vals[k], "d": decs[k]})
	symCover("rendered")
	symAssert(err == nil, "renders")
	symAssert(out == want[k]+"|"+want[k], "number_format-rounding-carry")
}
