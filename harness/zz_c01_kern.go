package twig

// C01 kernel obligations (in-package): a recycled pooled object in an arbitrary state is fully
// re-initialised by its constructor wrapper.

// VH_C01_ResetCtx: the pooled RenderContext handed back by the pool is havoc'd (every map with
// symbolic stale content, every flag symbolic, every pointer nil-or-stale); NewRenderContext must
// return it in the state its arguments dictate.
func VH_C01_ResetCtx() {
	e := New()
	old := &RenderContext{}
	if symBool() {
		old.context = map[string]interface{}{}
		if symBool() {
			old.context["stale"] = 1
		}
		if symBool() {
			old.context["k"] = "old"
		}
	}
	if symBool() {
		old.blocks = map[string][]Node{}
		if symBool() {
			old.blocks["b"] = []Node{NewTextNode("x", 1)}
		}
	}
	if symBool() {
		old.parentBlocks = map[string][]Node{}
		if symBool() {
			old.parentBlocks["b"] = []Node{NewTextNode("y", 1)}
		}
	}
	if symBool() {
		old.macros = map[string]Node{}
		if symBool() {
			old.macros["m"] = NewTextNode("z", 1)
		}
	}
	old.extending, old.inParentCall, old.sandboxed = symBool(), symBool(), symBool()
	if symBool() {
		old.parent = &RenderContext{}
	}
	if symBool() {
		old.currentBlock = &BlockNode{name: "b"}
	}
	if symBool() {
		old.env = &Environment{}
	}
	if symBool() {
		old.lastLoadedTemplate = &Template{name: "stale/dir/template"}
	}
	if symBool() {
		old.blockChain = map[string][][]Node{"b": {{NewTextNode("stale", 1)}}}
		old.blockLevel = 2
	}
	renderContextPool.Put(old)
	ctx := NewRenderContext(e.environment, map[string]interface{}{"k": 1}, e)
	symCover("got")
	if ctx != old {
		// the pool may hand out a different object (natively: per-P caches); nothing to check then
		return
	}
	symCover("recycled")
	v, ok := ctx.context["k"]
	symAssert(len(ctx.context) == 1 && ok && v == interface{}(1), "variables-reset")
	symAssert(len(ctx.blocks) == 0 && len(ctx.parentBlocks) == 0 && len(ctx.macros) == 0, "maps-reset")
	symAssert(ctx.blocks != nil && ctx.parentBlocks != nil && ctx.macros != nil && ctx.context != nil, "maps-usable")
	symAssert(!ctx.extending && !ctx.inParentCall && !ctx.sandboxed, "flags-reset")
	symAssert(ctx.parent == nil && ctx.currentBlock == nil, "pointers-reset")
	symAssert(ctx.lastLoadedTemplate == nil, "template-reference-reset")
	symAssert(len(ctx.blockChain) == 0 && ctx.blockLevel == 0, "block-chain-reset")
	symAssert(ctx.env == e.environment && ctx.engine == e, "environment-set")
}
