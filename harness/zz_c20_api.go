package twig

import "strconv"

// C20: attribute access returns the right member whatever was looked up before. Public API; the
// struct types are declared here. Oracle: direct Go field access / method calls.

type vhInnerT struct {
	Promoted string
	Shadow   string
}
type vhDeepT struct{ Deep string }
type vhOuterT struct {
	vhInnerT
	*vhDeepT
	Name   string
	Shadow string
	hidden string
	Count  int
}

func (o vhOuterT) ValMethod() string    { return "VM:" + o.Name }
func (o *vhOuterT) PtrMethod() string   { return "PM:" + o.Name }
func (o vhOuterT) WithArg(i int) string { return "WA" }
func (o vhInnerT) InnerMethod() string  { return "IM:" + o.Promoted }

// a second type with the same member names in another layout: a cache keyed by name only would mix them up
type vhOtherT struct {
	Shadow   string
	Count    int
	Name     string
	Promoted string
}

func (o vhOtherT) ValMethod() string { return "other" }

var vhC20Attrs = []string{"Name", "Shadow", "Promoted", "Deep", "Count", "ValMethod", "PtrMethod", "InnerMethod", "hidden", "Nope", "WithArg"}

type vhC20Obj struct {
	val  interface{}
	want map[string]string
}

// vhC20Make builds an object of the chosen shape with symbolic member values and its expected
// attribute table (missing key = empty output).
func vhC20Make(shape int) vhC20Obj {
	a, b, c, d, e := symStringIn(1, "abc"), symStringIn(1, "abc"), symStringIn(1, "abc"), symStringIn(1, "abc"), symStringIn(1, "abc")
	switch shape {
	case 0, 1, 2:
		o := vhOuterT{vhInnerT: vhInnerT{Promoted: a, Shadow: b}, Name: c, Shadow: d, hidden: e, Count: 7}
		w := map[string]string{"Name": c, "Shadow": d, "Promoted": a, "Count": "7", "ValMethod": "VM:" + c, "PtrMethod": "PM:" + c, "InnerMethod": "IM:" + a}
		if shape != 2 {
			o.vhDeepT = &vhDeepT{Deep: e}
			w["Deep"] = e
		}
		if shape == 0 {
			return vhC20Obj{o, w}
		}
		return vhC20Obj{&o, w}
	case 3:
		return vhC20Obj{vhOtherT{Shadow: a, Count: 3, Name: b, Promoted: c}, map[string]string{"Shadow": a, "Count": "3", "Name": b, "Promoted": c, "ValMethod": "other"}}
	case 4:
		return vhC20Obj{map[string]interface{}{"Name": a, "Count": 5, "hidden": b}, map[string]string{"Name": a, "Count": "5", "hidden": b}}
	default:
		return vhC20Obj{map[string]string{"Name": a, "Shadow": b}, map[string]string{"Name": a, "Shadow": b}}
	}
}

var vhC20Shapes = []string{"struct", "ptr", "ptr-nil-embedded", "other-struct", "map", "typed-map"}

// VH_C20_Attr: x.name and x['name'] for every shape and name, after a history of H other lookups.
func VH_C20_Attr() {
	h := symParam("H", 2)
	e := New()
	hist := ""
	for i := 0; i < h; i++ {
		hs, ha := symChoice(len(vhC20Shapes)), symChoice(len(vhC20Attrs))
		ho := vhC20Make(hs)
		src := "{{ o." + vhC20Attrs[ha] + " }}"
		e.RegisterString("h"+strconv.Itoa(i), src)
		out, err := e.Render("h"+strconv.Itoa(i), map[string]interface{}{"o": ho.val})
		hist += vhC20Shapes[hs] + "." + vhC20Attrs[ha] + ";"
		symAssert(err == nil && out == ho.want[vhC20Attrs[ha]], "history-lookup-right")
	}
	s, a := symChoice(len(vhC20Shapes)), symChoice(len(vhC20Attrs))
	symTag("lookup:" + vhC20Shapes[s] + "." + vhC20Attrs[a])
	o := vhC20Make(s)
	dot := symBool()
	src := "{{ o." + vhC20Attrs[a] + " }}"
	if !dot {
		if s < 4 {
			return // x['name'] is defined for maps only
		}
		src = "{{ o['" + vhC20Attrs[a] + "'] }}"
	}
	e.RegisterString("t", src)
	out, err := e.Render("t", map[string]interface{}{"o": o.val})
	symCover("rendered")
	symAssert(err == nil, "no-error")
	symAssert(out == o.want[vhC20Attrs[a]], "attribute-value")
	_ = hist
}

// vhC20WideNames: field names of the 300-field struct that are looked up (around every power-of-two
// boundary an index encoding could have)
var vhC20WideNames = []string{"F000", "F001", "F007", "F008", "F015", "F016", "F031", "F032", "F063", "F064", "F127", "F128", "F255", "F256", "F257", "F299"}

// VH_C20_Wide: a struct with 300 fields, by value and by pointer, after a history of H other lookups on
// it: x.Fnnn is field nnn.
func VH_C20_Wide() {
	h := symParam("H", 1)
	w := vhNewWide()
	var obj interface{} = w
	if symBool() {
		obj = &w
	}
	e := New()
	for i := 0; i < h; i++ {
		hn := vhC20WideNames[symChoice(len(vhC20WideNames))]
		e.RegisterString("h"+strconv.Itoa(i), "{{ o."+hn+" }}")
		out, err := e.Render("h"+strconv.Itoa(i), map[string]interface{}{"o": obj})
		symAssert(err == nil && out == "v"+hn[1:], "history-lookup-right")
	}
	n := vhC20WideNames[symChoice(len(vhC20WideNames))]
	symTag("lookup:wide." + n)
	e.RegisterString("t", "{{ o."+n+" }}|{{ o.F300 }}")
	out, err := e.Render("t", map[string]interface{}{"o": obj})
	symCover("rendered")
	symAssert(err == nil, "no-error")
	symAssert(out == "v"+n[1:]+"|", "attribute-value")
}
