package twig

// a struct with more fields than fit a byte-sized index (generated)
type vhWide struct {
	F000 string
	F001 string
	F002 string
	F003 string
	F004 string
	F005 string
	F006 string
	F007 string
	F008 string
	F009 string
	F010 string
	F011 string
	F012 string
	F013 string
	F014 string
	F015 string
	F016 string
	F017 string
	F018 string
	F019 string
	F020 string
	F021 string
	F022 string
	F023 string
	F024 string
	F025 string
	F026 string
	F027 string
	F028 string
	F029 string
	F030 string
	F031 string
	F032 string
	F033 string
	F034 string
	F035 string
	F036 string
	F037 string
	F038 string
	F039 string
	F040 string
	F041 string
	F042 string
	F043 string
	F044 string
	F045 string
	F046 string
	F047 string
	F048 string
	F049 string
	F050 string
	F051 string
	F052 string
	F053 string
	F054 string
	F055 string
	F056 string
	F057 string
	F058 string
	F059 string
	F060 string
	F061 string
	F062 string
	F063 string
	F064 string
	F065 string
	F066 string
	F067 string
	F068 string
	F069 string
	F070 string
	F071 string
	F072 string
	F073 string
	F074 string
	F075 string
	F076 string
	F077 string
	F078 string
	F079 string
	F080 string
	F081 string
	F082 string
	F083 string
	F084 string
	F085 string
	F086 string
	F087 string
	F088 string
	F089 string
	F090 string
	F091 string
	F092 string
	F093 string
	F094 string
	F095 string
	F096 string
	F097 string
	F098 string
	F099 string
	F100 string
	F101 string
	F102 string
	F103 string
	F104 string
	F105 string
	F106 string
	F107 string
	F108 string
	F109 string
	F110 string
	F111 string
	F112 string
	F113 string
	F114 string
	F115 string
	F116 string
	F117 string
	F118 string
	F119 string
	F120 string
	F121 string
	F122 string
	F123 string
	F124 string
	F125 string
	F126 string
	F127 string
	F128 string
	F129 string
	F130 string
	F131 string
	F132 string
	F133 string
	F134 string
	F135 string
	F136 string
	F137 string
	F138 string
	F139 string
	F140 string
	F141 string
	F142 string
	F143 string
	F144 string
	F145 string
	F146 string
	F147 string
	F148 string
	F149 string
	F150 string
	F151 string
	F152 string
	F153 string
	F154 string
	F155 string
	F156 string
	F157 string
	F158 string
	F159 string
	F160 string
	F161 string
	F162 string
	F163 string
	F164 string
	F165 string
	F166 string
	F167 string
	F168 string
	F169 string
	F170 string
	F171 string
	F172 string
	F173 string
	F174 string
	F175 string
	F176 string
	F177 string
	F178 string
	F179 string
	F180 string
	F181 string
	F182 string
	F183 string
	F184 string
	F185 string
	F186 string
	F187 string
	F188 string
	F189 string
	F190 string
	F191 string
	F192 string
	F193 string
	F194 string
	F195 string
	F196 string
	F197 string
	F198 string
	F199 string
	F200 string
	F201 string
	F202 string
	F203 string
	F204 string
	F205 string
	F206 string
	F207 string
	F208 string
	F209 string
	F210 string
	F211 string
	F212 string
	F213 string
	F214 string
	F215 string
	F216 string
	F217 string
	F218 string
	F219 string
	F220 string
	F221 string
	F222 string
	F223 string
	F224 string
	F225 string
	F226 string
	F227 string
	F228 string
	F229 string
	F230 string
	F231 string
	F232 string
	F233 string
	F234 string
	F235 string
	F236 string
	F237 string
	F238 string
	F239 string
	F240 string
	F241 string
	F242 string
	F243 string
	F244 string
	F245 string
	F246 string
	F247 string
	F248 string
	F249 string
	F250 string
	F251 string
	F252 string
	F253 string
	F254 string
	F255 string
	F256 string
	F257 string
	F258 string
	F259 string
	F260 string
	F261 string
	F262 string
	F263 string
	F264 string
	F265 string
	F266 string
	F267 string
	F268 string
	F269 string
	F270 string
	F271 string
	F272 string
	F273 string
	F274 string
	F275 string
	F276 string
	F277 string
	F278 string
	F279 string
	F280 string
	F281 string
	F282 string
	F283 string
	F284 string
	F285 string
	F286 string
	F287 string
	F288 string
	F289 string
	F290 string
	F291 string
	F292 string
	F293 string
	F294 string
	F295 string
	F296 string
	F297 string
	F298 string
	F299 string
}

func vhNewWide() vhWide {
	var w vhWide
	w.F000 = "v000"
	w.F001 = "v001"
	w.F002 = "v002"
	w.F003 = "v003"
	w.F004 = "v004"
	w.F005 = "v005"
	w.F006 = "v006"
	w.F007 = "v007"
	w.F008 = "v008"
	w.F009 = "v009"
	w.F010 = "v010"
	w.F011 = "v011"
	w.F012 = "v012"
	w.F013 = "v013"
	w.F014 = "v014"
	w.F015 = "v015"
	w.F016 = "v016"
	w.F017 = "v017"
	w.F018 = "v018"
	w.F019 = "v019"
	w.F020 = "v020"
	w.F021 = "v021"
	w.F022 = "v022"
	w.F023 = "v023"
	w.F024 = "v024"
	w.F025 = "v025"
	w.F026 = "v026"
	w.F027 = "v027"
	w.F028 = "v028"
	w.F029 = "v029"
	w.F030 = "v030"
	w.F031 = "v031"
	w.F032 = "v032"
	w.F033 = "v033"
	w.F034 = "v034"
	w.F035 = "v035"
	w.F036 = "v036"
	w.F037 = "v037"
	w.F038 = "v038"
	w.F039 = "v039"
	w.F040 = "v040"
	w.F041 = "v041"
	w.F042 = "v042"
	w.F043 = "v043"
	w.F044 = "v044"
	w.F045 = "v045"
	w.F046 = "v046"
	w.F047 = "v047"
	w.F048 = "v048"
	w.F049 = "v049"
	w.F050 = "v050"
	w.F051 = "v051"
	w.F052 = "v052"
	w.F053 = "v053"
	w.F054 = "v054"
	w.F055 = "v055"
	w.F056 = "v056"
	w.F057 = "v057"
	w.F058 = "v058"
	w.F059 = "v059"
	w.F060 = "v060"
	w.F061 = "v061"
	w.F062 = "v062"
	w.F063 = "v063"
	w.F064 = "v064"
	w.F065 = "v065"
	w.F066 = "v066"
	w.F067 = "v067"
	w.F068 = "v068"
	w.F069 = "v069"
	w.F070 = "v070"
	w.F071 = "v071"
	w.F072 = "v072"
	w.F073 = "v073"
	w.F074 = "v074"
	w.F075 = "v075"
	w.F076 = "v076"
	w.F077 = "v077"
	w.F078 = "v078"
	w.F079 = "v079"
	w.F080 = "v080"
	w.F081 = "v081"
	w.F082 = "v082"
	w.F083 = "v083"
	w.F084 = "v084"
	w.F085 = "v085"
	w.F086 = "v086"
	w.F087 = "v087"
	w.F088 = "v088"
	w.F089 = "v089"
	w.F090 = "v090"
	w.F091 = "v091"
	w.F092 = "v092"
	w.F093 = "v093"
	w.F094 = "v094"
	w.F095 = "v095"
	w.F096 = "v096"
	w.F097 = "v097"
	w.F098 = "v098"
	w.F099 = "v099"
	w.F100 = "v100"
	w.F101 = "v101"
	w.F102 = "v102"
	w.F103 = "v103"
	w.F104 = "v104"
	w.F105 = "v105"
	w.F106 = "v106"
	w.F107 = "v107"
	w.F108 = "v108"
	w.F109 = "v109"
	w.F110 = "v110"
	w.F111 = "v111"
	w.F112 = "v112"
	w.F113 = "v113"
	w.F114 = "v114"
	w.F115 = "v115"
	w.F116 = "v116"
	w.F117 = "v117"
	w.F118 = "v118"
	w.F119 = "v119"
	w.F120 = "v120"
	w.F121 = "v121"
	w.F122 = "v122"
	w.F123 = "v123"
	w.F124 = "v124"
	w.F125 = "v125"
	w.F126 = "v126"
	w.F127 = "v127"
	w.F128 = "v128"
	w.F129 = "v129"
	w.F130 = "v130"
	w.F131 = "v131"
	w.F132 = "v132"
	w.F133 = "v133"
	w.F134 = "v134"
	w.F135 = "v135"
	w.F136 = "v136"
	w.F137 = "v137"
	w.F138 = "v138"
	w.F139 = "v139"
	w.F140 = "v140"
	w.F141 = "v141"
	w.F142 = "v142"
	w.F143 = "v143"
	w.F144 = "v144"
	w.F145 = "v145"
	w.F146 = "v146"
	w.F147 = "v147"
	w.F148 = "v148"
	w.F149 = "v149"
	w.F150 = "v150"
	w.F151 = "v151"
	w.F152 = "v152"
	w.F153 = "v153"
	w.F154 = "v154"
	w.F155 = "v155"
	w.F156 = "v156"
	w.F157 = "v157"
	w.F158 = "v158"
	w.F159 = "v159"
	w.F160 = "v160"
	w.F161 = "v161"
	w.F162 = "v162"
	w.F163 = "v163"
	w.F164 = "v164"
	w.F165 = "v165"
	w.F166 = "v166"
	w.F167 = "v167"
	w.F168 = "v168"
	w.F169 = "v169"
	w.F170 = "v170"
	w.F171 = "v171"
	w.F172 = "v172"
	w.F173 = "v173"
	w.F174 = "v174"
	w.F175 = "v175"
	w.F176 = "v176"
	w.F177 = "v177"
	w.F178 = "v178"
	w.F179 = "v179"
	w.F180 = "v180"
	w.F181 = "v181"
	w.F182 = "v182"
	w.F183 = "v183"
	w.F184 = "v184"
	w.F185 = "v185"
	w.F186 = "v186"
	w.F187 = "v187"
	w.F188 = "v188"
	w.F189 = "v189"
	w.F190 = "v190"
	w.F191 = "v191"
	w.F192 = "v192"
	w.F193 = "v193"
	w.F194 = "v194"
	w.F195 = "v195"
	w.F196 = "v196"
	w.F197 = "v197"
	w.F198 = "v198"
	w.F199 = "v199"
	w.F200 = "v200"
	w.F201 = "v201"
	w.F202 = "v202"
	w.F203 = "v203"
	w.F204 = "v204"
	w.F205 = "v205"
	w.F206 = "v206"
	w.F207 = "v207"
	w.F208 = "v208"
	w.F209 = "v209"
	w.F210 = "v210"
	w.F211 = "v211"
	w.F212 = "v212"
	w.F213 = "v213"
	w.F214 = "v214"
	w.F215 = "v215"
	w.F216 = "v216"
	w.F217 = "v217"
	w.F218 = "v218"
	w.F219 = "v219"
	w.F220 = "v220"
	w.F221 = "v221"
	w.F222 = "v222"
	w.F223 = "v223"
	w.F224 = "v224"
	w.F225 = "v225"
	w.F226 = "v226"
	w.F227 = "v227"
	w.F228 = "v228"
	w.F229 = "v229"
	w.F230 = "v230"
	w.F231 = "v231"
	w.F232 = "v232"
	w.F233 = "v233"
	w.F234 = "v234"
	w.F235 = "v235"
	w.F236 = "v236"
	w.F237 = "v237"
	w.F238 = "v238"
	w.F239 = "v239"
	w.F240 = "v240"
	w.F241 = "v241"
	w.F242 = "v242"
	w.F243 = "v243"
	w.F244 = "v244"
	w.F245 = "v245"
	w.F246 = "v246"
	w.F247 = "v247"
	w.F248 = "v248"
	w.F249 = "v249"
	w.F250 = "v250"
	w.F251 = "v251"
	w.F252 = "v252"
	w.F253 = "v253"
	w.F254 = "v254"
	w.F255 = "v255"
	w.F256 = "v256"
	w.F257 = "v257"
	w.F258 = "v258"
	w.F259 = "v259"
	w.F260 = "v260"
	w.F261 = "v261"
	w.F262 = "v262"
	w.F263 = "v263"
	w.F264 = "v264"
	w.F265 = "v265"
	w.F266 = "v266"
	w.F267 = "v267"
	w.F268 = "v268"
	w.F269 = "v269"
	w.F270 = "v270"
	w.F271 = "v271"
	w.F272 = "v272"
	w.F273 = "v273"
	w.F274 = "v274"
	w.F275 = "v275"
	w.F276 = "v276"
	w.F277 = "v277"
	w.F278 = "v278"
	w.F279 = "v279"
	w.F280 = "v280"
	w.F281 = "v281"
	w.F282 = "v282"
	w.F283 = "v283"
	w.F284 = "v284"
	w.F285 = "v285"
	w.F286 = "v286"
	w.F287 = "v287"
	w.F288 = "v288"
	w.F289 = "v289"
	w.F290 = "v290"
	w.F291 = "v291"
	w.F292 = "v292"
	w.F293 = "v293"
	w.F294 = "v294"
	w.F295 = "v295"
	w.F296 = "v296"
	w.F297 = "v297"
	w.F298 = "v298"
	w.F299 = "v299"
	return w
}
