package twig

import (
	"strconv"
	"time"
)

// C03: output is a deterministic function of templates and context. Public API only.
// The engine's map-iteration adversary is switched on around the second render: every `range` over
// a map and every reflect.MapKeys may yield any order (all permutations up to 4 entries), decided
// by the solver. Natively symMapAdversary is a no-op and the two renders run on maps built in
// different insertion orders.

var vhC03Tpl = []string{
	"{% for k, v in m %}{{ k }}={{ v }};{% endfor %}",
	"{% for v in m %}{{ v }}{{ loop.index }},{% endfor %}",
	"{{ m|keys|join(',') }}",
	"{{ m|first }}",
	"{{ m|join(',') }}",
	"{{ m|length }}{{ m|merge({'z': 9})|keys|join(',') }}",
	"{% for k, v in m|merge(m2) %}{{ k }}{{ v }}{% endfor %}",
	"{% for k, v in {'b': 1, 'a': 2, 'c': 3} %}{{ k }}{{ v }}{% endfor %}",
	"{{ {'b': 1, 'a': 2, 'b': 3}|keys|join(',') }}{{ {'b': 1, 'a': 2, 'b': 3}['b'] }}",
	"{% for k, v in tm %}{{ k }}{{ v }}{% endfor %}{{ tm|keys|join(',') }}{{ tm|first }}",
	"{% for k, v in im %}{{ k }}{{ v }}{% endfor %}",
	"{{ m }}|{{ tm }}",
	"{% for k, v in nested %}{{ k }}:{% for k2, v2 in v %}{{ k2 }}{{ v2 }}{% endfor %};{% endfor %}",
	"{% set q = {'y': m.a, 'x': m.b} %}{% for k, v in q %}{{ k }}{{ v }}{% endfor %}",
	"{% include 'inc' with {'p': 1, 'o': 2} %}",
	"{{ 'a' in m }}{{ m.a }}{{ m['b'] }}{{ tm.b }}",
	"{% for k, v in fm %}{{ k }}={{ v }};{% endfor %}",
	"{{ fm|keys|join(',') }}",
	"{{ fm|first }}",
	"{% for k, v in am %}{{ k }}={{ v }};{% endfor %}",
	"{{ am|keys|join(',') }}",
	"{{ am|first }}",
	"{% for k, v in bm %}{{ k }}={{ v }};{% endfor %}{{ bm|keys|join(',') }}",
	"{% for k, v in sm %}{{ k }}={{ v }};{% endfor %}",
	"{{ sm|keys|join(',') }}",
	"{{ sm|first }}",
	"{% for k, v in xm %}{{ k }}={{ v }};{% endfor %}",
	"{{ xm|keys|join(',') }}|{{ xm|first }}",
	"{% for k, v in ym %}{{ k }}={{ v }};{% endfor %}{{ ym|keys|join(',') }}",
	"{% for k, v in nm %}{{ k }}={{ v }};{% endfor %}",
	"{{ nm|keys|join(',') }}|{{ nm|first }}",
	"{% for k, v in {'07': 1, '7': 2, '+7': 3} %}{{ k }}{{ v }}{% endfor %}",
	// keys that differ only in case or in surrounding blanks, read with a spelling that is none of them
	"{{ cm.name }}|{{ cm.NAME }}|{{ cm['name'] }}|{{ cm.Name }}|{{ cm.nAME }}",
	"{{ cm.name|default('none') }}{% if cm.name is defined %}D{% endif %}{{ cm|keys|join(',') }}",
	// from here on (vhC03Strict): maps handed to filters and functions as values and as arguments;
	// a template may fail (unknown filter, unsupported argument) but then fails on every order
	"{{ 'catalog category c'|replace({'cat': 'X', 'category': 'Y', 'c': 'Z'}) }}",
	"{{ 'abcab'|replace(pm) }}",
	"{{ m|last }}|{{ tm|last }}",
	"{{ m|sort|join(',') }}|{{ tm|sort|join(',') }}",
	"{{ m|reverse|join(',') }}",
	"{{ m|slice(0, 2)|join(',') }}|{{ tm|slice(1)|join(',') }}",
	"{{ max(tm) }}{{ min(tm) }}",
	"{{ tm|json_encode }}|{{ im|json_encode }}",
	"{{ m|url_encode }}",
	"{% for r in tm|batch(2) %}{{ r|join(',') }};{% endfor %}",
	"{{ cycle(m, 1) }}{{ cycle(tm, 0) }}",
	"{{ m|column('q')|join(',') }}|{{ nested|column('x')|join(',') }}",
	"{{ 'a: %s'|format(m) }}",
	"{{ dump(m) }}",
	"{% for k in m|keys|sort %}{{ k }}{% endfor %}{% for k in tm|keys|reverse %}{{ k }}{% endfor %}",
	"{{ m|default('d') }}|{{ m|first|default('d') }}|{{ m|length }}",
	"{% set r = m|merge(tm) %}{{ r|keys|join(',') }}|{{ r|join(',') }}",
	"{% if m == m2 %}E{% endif %}{% if 'x' in m %}I{% endif %}{% if m %}T{% endif %}{{ m is iterable }}{{ tm is empty }}",
	"{% for k, v in pm %}{{ loop.first }}{{ loop.last }}{{ loop.length }}{{ k }}{% endfor %}",
}

// index of the first template that is allowed to fail
func vhC03Strict() int {
	for i, t := range vhC03Tpl {
		if len(t) > 12 && t[:12] == "{{ 'catalog " {
			return i
		}
	}
	return len(vhC03Tpl)
}

type vhKeyT string

func vhC03Ctx(order int, a, b, c string) map[string]interface{} {
	m := map[string]interface{}{}
	tm := map[string]int{}
	im := map[int]string{}
	// natively the insertion order is varied; symbolically the adversary varies the iteration order
	ks := [][]string{{"a", "b", "c"}, {"c", "b", "a"}, {"b", "c", "a"}}[order%3]
	for i, k := range ks {
		switch k {
		case "a":
			m[k], tm[k], im[1] = a, 1, "one"
		case "b":
			m[k], tm[k], im[2] = b, 2, "two"
		case "c":
			m[k], tm[k], im[3] = c, 3, "three"
		}
		_ = i
	}
	// key types other than string and int: float, interface{}, bool, a named string type; 4 entries
	fm := map[float64]string{}
	am := map[interface{}]interface{}{}
	bm := map[bool]string{}
	sm := map[vhKeyT]int{}
	fks := [][]float64{{0.5, 2.5, 10.5}, {10.5, 2.5, 0.5}, {2.5, 10.5, 0.5}}[order%3]
	for _, f := range fks {
		fm[f] = a
		sm[vhKeyT("k"+strconv.Itoa(int(f)))] = int(f)
	}
	switch order % 3 {
	case 0:
		am[1.5], am["s"], am[true] = a, b, c
	case 1:
		am[true], am["s"], am[1.5] = c, b, a
	default:
		am["s"], am[true], am[1.5] = b, c, a
	}
	// interface-keyed maps mixing integers and strings whose text forms interleave (2 < 10, "10" < "1a" < "2")
	xm := map[interface{}]interface{}{}
	ym := map[interface{}]string{}
	for _, k := range [][]interface{}{{2, 10, "1a"}, {"1a", 10, 2}, {10, "1a", 2}}[order%3] {
		xm[k] = a
	}
	for _, k := range [][]interface{}{{int64(3), 20, "2z", 1.5}, {1.5, "2z", 20, int64(3)}, {20, 1.5, int64(3), "2z"}}[order%3] {
		ym[k] = b
	}
	// string keys that spell the same number in different ways, and keys differing only in case / width
	nm := map[string]interface{}{}
	for _, k := range [][]string{{"7", "07", "+7"}, {"+7", "07", "7"}, {"07", "7", "+7"}}[order%3] {
		nm[k] = c
	}
	cm := map[string]interface{}{}
	for _, k := range [][]string{{"Name", "NAME", "nAME"}, {"nAME", "NAME", "Name"}, {"NAME", "nAME", "Name"}}[order%3] {
		cm[k] = a + k
	}
	if order%2 == 0 {
		bm[true], bm[false] = "x", "y"
	} else {
		bm[false], bm[true] = "y", "x"
	}
	return map[string]interface{}{"cm": cm, "nm": nm, "xm": xm, "ym": ym, "fm": fm, "am": am, "bm": bm, "sm": sm, "m": m, "tm": tm, "im": im, "m2": map[string]interface{}{"d": "4", "a": "0"}, "pm": vhC03Pm(order),
		"nested": map[string]interface{}{"n2": map[string]interface{}{"y": 1, "x": 2}, "n1": map[string]interface{}{"q": 3, "p": 4}}}
}

// a map whose keys are prefixes of each other
func vhC03Pm(order int) map[string]interface{} {
	pm := map[string]interface{}{}
	for _, k := range [][]string{{"a", "ab", "abc"}, {"abc", "ab", "a"}, {"ab", "abc", "a"}}[order%3] {
		pm[k] = strconv.Itoa(len(k))
	}
	return pm
}

// vhC03Only keeps the context entries whose name occurs in the template source.
func vhC03Only(ctx map[string]interface{}, src string) map[string]interface{} {
	out := map[string]interface{}{}
	for _, name := range []string{"cm", "nm", "xm", "ym", "fm", "am", "bm", "sm", "tm", "im", "m2", "nested", "pm", "m"} {
		found := false
		for i := 0; i+len(name) <= len(src); i++ {
			if src[i:i+len(name)] == name && (i+len(name) == len(src) || !(src[i+len(name)] >= 'a' && src[i+len(name)] <= 'z') && !(src[i+len(name)] >= '0' && src[i+len(name)] <= '9')) && (i == 0 || !(src[i-1] >= 'a' && src[i-1] <= 'z')) {
				found = true
			}
		}
		if found {
			out[name] = ctx[name]
		}
	}
	return out
}

// VH_C03_MapOrder: two renders with independently chosen map iteration orders give equal bytes.
func VH_C03_MapOrder() {
	t := symParam("T", -1)
	if t < 0 {
		t = symChoice(len(vhC03Tpl))
	}
	symTag("tpl:" + strconv.Itoa(t))
	a, b, c := symStringIn(1, "xyz"), symStringIn(1, "xyz"), symStringIn(1, "xyz")
	e := New()
	e.RegisterString("inc", "{% for k, v in _context %}{% endfor %}{{ p }}{{ o }}")
	if err := e.RegisterString("t", vhC03Tpl[t]); err != nil {
		symAssert(false, "corpus-template-parses")
		return
	}
	// only the variables the template mentions are passed (keeps the adversary's choices to the maps under test)
	o1, e1 := e.Render("t", vhC03Only(vhC03Ctx(0, a, b, c), vhC03Tpl[t]))
	ctx2 := vhC03Only(vhC03Ctx(1+symChoice(2), a, b, c), vhC03Tpl[t])
	symMapAdversary(true)
	o2, e2 := e.Render("t", ctx2)
	symMapAdversary(false)
	symCover("rendered")
	if t < vhC03Strict() {
		symAssert(e1 == nil, "renders")
	}
	symAssert((e1 == nil) == (e2 == nil), "same-error")
	symAssert(o1 == o2, "output-independent-of-map-order")
}

// letters of the date format table and their meaning for a fixed instant
// (2024-03-05 15:04:09 UTC, a Tuesday), written from the documentation of the filter
var vhC03DateRef = map[byte]string{
	'd': "05", 'D': "Tue", 'j': "5", 'l': "Tuesday", 'F': "March", 'm': "03", 'M': "Mar", 'n': "3",
	'Y': "2024", 'y': "24", 'a': "pm", 'A': "PM", 'g': "3", 'G': "15", 'h': "03", 'H': "15", 'i': "04", 's': "09",
}

const vhC03DateAlphabet = "dDjlFmMnYyaAgGhHis-/: ,"

// VH_C03_DateFormat: every format string of up to N characters over the format letters and some
// separators gives one fixed result: the per-letter translation.
func VH_C03_DateFormat() {
	n := 1 + symChoice(symParam("N", 2))
	f := symStringIn(n, vhC03DateAlphabet)
	want := ""
	for i := 0; i < n; i++ {
		if r, ok := vhC03DateRef[f[i]]; ok {
			want += r
		} else {
			want += f[i : i+1]
		}
	}
	ctx := map[string]interface{}{"d": "2024-03-05 15:04:09", "f": f}
	ref, rerr := vhR("{{ d|date(f) }}", ctx)
	symMapAdversary(true)
	out, err := vhR("{{ d|date(f) }}", ctx)
	symMapAdversary(false)
	symCover("rendered")
	symAssert(err == nil && rerr == nil, "renders")
	symAssert(out == ref, "date-format-one-fixed-result")
	if n == 1 {
		// a single format character has its documented meaning
		symAssert(out == want, "date-format-letter-meaning")
	}
}

// VH_C03_DateValue: a timestamp given as a number (int, int64, float64, numeric string) denotes one
// fixed instant, before and after 1970 alike; only the documented "now" values (nil, 0, '', 'now')
// depend on the clock. Rendered twice (the clock moves between the two) and compared with the
// calendar arithmetic of the time package.
func VH_C03_DateValue() {
	ts := []int64{-299849385, -1, 1, 59, -86400, 951782400, 1709651049, -2208988800, 4102444800}[symChoice(9)]
	var v interface{}
	switch symChoice(4) {
	case 0:
		v = int(ts)
		symTag("shape:int")
	case 1:
		v = ts
		symTag("shape:int64")
	case 2:
		v = float64(ts)
		symTag("shape:float64")
	case 3:
		v = strconv.FormatInt(ts, 10)
		symTag("shape:string")
	}
	want := time.Unix(ts, 0).Format("2006-01-02 15:04:05")
	ctx := map[string]interface{}{"d": v}
	o1, e1 := vhR("{{ d|date('Y-m-d H:i:s') }}", ctx)
	o2, e2 := vhR("{{ d|date('Y-m-d H:i:s') }}", ctx)
	symCover("rendered")
	symAssert(e1 == nil && e2 == nil, "renders")
	symAssert(o1 == o2, "same-timestamp-same-output")
	symAssert(o1 == want, "timestamp-denotes-its-instant")
}
