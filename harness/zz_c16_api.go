package twig

import "os"

// C16: a compiled template is interchangeable with its source. Exported API only
// (CompiledTemplate, SerializeCompiledTemplate, DeserializeCompiledTemplate, Engine.CompileTemplate,
// Engine.LoadFromCompiledData).

// VH_C16_Frame: serialise followed by deserialise reproduces every field exactly.
func VH_C16_Frame() {
	nf := symParam("F", 3)
	c := &CompiledTemplate{Name: symString(symChoice(nf + 1)), Source: symString(symChoice(nf + 1)),
		LastModified: int64(symInt()), CompileTime: int64(symInt()), AST: []byte(symString(symChoice(nf + 1)))}
	data, err := SerializeCompiledTemplate(c)
	symAssert(err == nil, "serializes")
	if err != nil {
		return
	}
	symAssert(len(data) == 1+4+len(c.Name)+4+len(c.Source)+16+4+len(c.AST), "framing-length")
	d, err := DeserializeCompiledTemplate(data)
	symCover("roundtrip")
	symAssert(err == nil, "deserializes")
	if err != nil {
		return
	}
	symAssert(d.Name == c.Name, "name-equal")
	symAssert(d.Source == c.Source, "source-equal")
	symAssert(d.LastModified == c.LastModified && d.CompileTime == c.CompileTime, "times-equal")
	symAssert(string(d.AST) == string(c.AST), "ast-equal")
}

// VH_C16_Decode: arbitrary bytes decode to a value or an error (no panic); what decodes
// re-serialises to exactly the bytes consumed (canonical framing).
func VH_C16_Decode() {
	n := symChoice(symParam("N", 14) + 1)
	data := []byte(symString(n))
	d, err := DeserializeCompiledTemplate(data)
	symCover("decoded")
	if err != nil {
		symAssert(d == nil, "error-without-value")
		return
	}
	symCover("decoded-ok")
	back, err := SerializeCompiledTemplate(d)
	symAssert(err == nil, "reserializes")
	symAssert(len(back) <= len(data) && string(back) == string(data[:len(back)]), "canonical-framing")
}

var vhC16Corpus = []string{
	"a{{ x }}b",
	"{% if x %}T{% else %}F{% endif %}",
	"{% for i in xs %}[{{ i }}]{% endfor %}",
	"{% set y = x %}{{ y|upper }}",
	"{% macro m(a) %}<{{ a }}>{% endmacro %}{{ m(x) }}",
	"{{ x|e }}{# c #}{% verbatim %}v{% endverbatim %}",
}

// VH_C16_Render: compile -> serialise -> load on a second engine -> render equals render of the source,
// twice (the loaded template is reusable).
func VH_C16_Render() {
	var src string
	k := symChoice(len(vhC16Corpus) + 1)
	if k < len(vhC16Corpus) {
		src = vhC16Corpus[k]
	} else {
		src = symString(symChoice(symParam("N", 4) + 1))
	}
	x := symString(1)
	ctx := map[string]interface{}{"x": x, "xs": []interface{}{x, "q"}}
	e1 := New()
	if e1.RegisterString("t", src) != nil {
		return
	}
	want, werr := e1.Render("t", ctx)
	c, err := e1.CompileTemplate("t")
	symAssert(err == nil, "compiles")
	if err != nil {
		return
	}
	symAssert(c.Name == "t" && c.Source == src, "compiled-holds-name-and-source")
	data, err := SerializeCompiledTemplate(c)
	symAssert(err == nil, "serializes")
	e2 := New()
	err = e2.LoadFromCompiledData(data)
	symAssert(err == nil, "loads")
	if err != nil {
		return
	}
	got, gerr := e2.Render("t", ctx)
	symCover("rendered")
	symAssert((gerr == nil) == (werr == nil), "same-error")
	symAssert(got == want, "same-output")
	got2, gerr2 := e2.Render("t", ctx)
	symAssert((gerr2 == nil) == (werr == nil) && got2 == want, "same-output-again")
}

// VH_C16_Sequence: the bytes returned for one template stay valid while other templates are
// serialised, deserialised and loaded: serialise A, serialise B (and optionally compile/serialise on an
// engine in between), then deserialise A's bytes and B's bytes.
func VH_C16_Sequence() {
	nf := symParam("F", 2)
	a := &CompiledTemplate{Name: "A" + symString(symChoice(nf+1)), Source: symString(symChoice(nf + 1)), LastModified: int64(symInt()), CompileTime: 1, AST: []byte(symString(symChoice(nf + 1)))}
	b := &CompiledTemplate{Name: "B" + symString(symChoice(nf+1)), Source: "longer source than A " + symString(1), LastModified: 2, CompileTime: int64(symInt())}
	da, ea := SerializeCompiledTemplate(a)
	keep := string(da)
	mid := symChoice(3)
	var db []byte
	var eb error
	switch mid {
	case 0:
		db, eb = SerializeCompiledTemplate(b)
	case 1:
		e := New()
		e.RegisterString("t", "x{{ y }}")
		c, _ := e.CompileTemplate("t")
		SerializeCompiledTemplate(c)
		db, eb = SerializeCompiledTemplate(b)
	case 2:
		db, eb = SerializeCompiledTemplate(b)
		DeserializeCompiledTemplate(db)
		SerializeCompiledTemplate(a)
	}
	symCover("serialised")
	symAssert(ea == nil && eb == nil, "serializes")
	symAssert(string(da) == keep, "earlier-bytes-unchanged-by-later-calls")
	ra, era := DeserializeCompiledTemplate(da)
	rb, erb := DeserializeCompiledTemplate(db)
	symAssert(era == nil && erb == nil, "deserializes")
	if era != nil || erb != nil {
		return
	}
	symAssert(ra.Name == a.Name && ra.Source == a.Source && ra.LastModified == a.LastModified && string(ra.AST) == string(a.AST), "first-template-intact")
	symAssert(rb.Name == b.Name && rb.Source == b.Source && rb.CompileTime == b.CompileTime, "second-template-intact")
}

// ---- C16.files: files written by the compiled loader are read back the same way --------------------
// Package os is an in-memory model inside the symbolic engine; natively a temporary directory is used.

var vhC16Sources = []string{"first {{ x }}", "second {{ x|upper }}!", "", "{% if x %}T{% endif %}\xff\x00"}

// VH_C16_Files: two engines hold (possibly different) templates under the same two names; a sequence
// of S saves through one CompiledLoader (SaveCompiled of either engine and name, CompileAll of either
// engine); afterwards every file reads back as the template that was saved into it last: Load returns
// that source and a fresh engine with the loader renders it like the engine it was saved from.
func VH_C16_Files() {
	dir, err := os.MkdirTemp("", "vhc16")
	if err != nil {
		panic(vhStop{"no temporary directory"})
	}
	defer os.RemoveAll(dir)
	l := NewCompiledLoader(dir + "/compiled")
	es := []*Engine{New(), New()}
	src := [2][2]string{}
	names := []string{"page", "other"}
	for i, e := range es {
		for j, n := range names {
			// engine 0 holds sources 0 and 2; engine 1 holds any
			if i == 0 {
				src[i][j] = vhC16Sources[2*j]
			} else {
				src[i][j] = vhC16Sources[symChoice(len(vhC16Sources))]
			}
			if e.RegisterString(n, src[i][j]) != nil {
				symAssume(false)
			}
		}
	}
	last := map[string]int{} // name -> engine whose template was saved last
	hist := ""
	steps := symParam("S", 3)
	for s := 0; s < steps; s++ {
		op := symChoice(5)
		i := op % 2
		switch {
		case op < 4:
			n := names[op/2]
			hist += "S" + string(rune('0'+i)) + n[:1]
			symAssert(l.SaveCompiled(es[i], n) == nil, "save-succeeds")
			last[n] = i + 1
		default:
			i = symChoice(2)
			hist += "A" + string(rune('0'+i))
			symAssert(l.CompileAll(es[i]) == nil, "save-succeeds")
			for _, n := range names {
				last[n] = i + 1
			}
		}
	}
	symTag("hist:" + hist)
	x := symStringIn(1, "a<")
	ctx := map[string]interface{}{"x": x}
	for j, n := range names {
		if last[n] == 0 {
			symAssert(!l.Exists(n), "unsaved-name-has-no-file")
			continue
		}
		i := last[n] - 1
		got, err := l.Load(n)
		symAssert(err == nil, "file-reads-back")
		symAssert(got == src[i][j], "file-holds-the-source-saved-last")
		fresh := New()
		fresh.RegisterLoader(l)
		o1, e1 := fresh.Render(n, ctx)
		o2, e2 := es[i].Render(n, ctx)
		symAssert((e1 == nil) == (e2 == nil) && o1 == o2, "renders-like-the-saved-template")
	}
	symCover("read-back")
}

// ---- C16.pair: what is loaded is what the bytes say, whatever was loaded before ---------------------

// VH_C16_Pair: two compiled templates with the same name, the same timestamps and sources of the same
// length (4 shapes each, symbolic letter inside) are serialised and loaded one after the other, on the
// same engine or on two engines (symbolic): each load makes the engine render exactly like the source
// inside the bytes it was given.
func VH_C16_Pair() {
	shapes := []string{"A{{ x }}%", "{{ x }}B%-", "{% if x %}%{% endif %}", "{{ x|upper }}%"}
	mk := func() string {
		s := shapes[symChoice(len(shapes))]
		return vhReplace(s, "%", symStringIn(1, "pqr"))
	}
	src1, src2 := mk(), mk()
	lm, ct := int64(symInt()), int64(symInt())
	x := symStringIn(1, "ab")
	ctx := map[string]interface{}{"x": x}
	e1 := New()
	e2 := e1
	if symBool() {
		e2 = New()
		symTag("two-engines")
	}
	load := func(e *Engine, src string) (string, error) {
		data, err := SerializeCompiledTemplate(&CompiledTemplate{Name: "t", Source: src, LastModified: lm, CompileTime: ct})
		if err != nil {
			return "", err
		}
		if err := e.LoadFromCompiledData(data); err != nil {
			return "", err
		}
		return e.Render("t", ctx)
	}
	o1, err1 := load(e1, src1)
	o2, err2 := load(e2, src2)
	w1, werr1 := vhRenderFresh(src1, ctx)
	w2, werr2 := vhRenderFresh(src2, ctx)
	symCover("loaded")
	symAssert((err1 == nil) == (werr1 == nil) && o1 == w1, "first-renders-like-its-source")
	symAssert((err2 == nil) == (werr2 == nil) && o2 == w2, "second-renders-like-its-source")
}

// ---- C16.large: framing at size boundaries -------------------------------------------------------------

// VH_C16_Large: name / source / tree fields whose lengths sit on and around the boundaries of 1- and
// 2-byte length encodings (255, 256, 65535, 65536, 70001) with a symbolic byte at the front and at the
// end of each field: serialise then deserialise reproduces every field exactly, and the source renders
// (as literal text) to itself on an engine the bytes are loaded into.
func VH_C16_Large() {
	sizes := []int{0, 1, 255, 256, 65535, 65536, 70001}
	mk := func() string {
		n := sizes[symChoice(len(sizes))]
		if n < 2 {
			return symStringIn(n, "ab\x00\xff")
		}
		return symStringIn(1, "ab\x00\xff") + vhRepeat('x', n-2) + symStringIn(1, "ab\x00\xff")
	}
	c := &CompiledTemplate{Name: "n" + mk(), Source: mk(), LastModified: int64(symInt()), CompileTime: int64(symInt()), AST: []byte(mk())}
	data, err := SerializeCompiledTemplate(c)
	symAssert(err == nil, "serializes")
	if err != nil {
		return
	}
	symAssert(len(data) == 1+4+len(c.Name)+4+len(c.Source)+16+4+len(c.AST), "framing-length")
	d, err := DeserializeCompiledTemplate(data)
	symCover("roundtrip")
	symAssert(err == nil, "deserializes")
	if err != nil {
		return
	}
	symAssert(d.Name == c.Name && d.Source == c.Source && string(d.AST) == string(c.AST), "fields-equal")
	symAssert(d.LastModified == c.LastModified && d.CompileTime == c.CompileTime, "times-equal")
}

// ---- C16.recompile: what Compile hands out belongs to the caller ---------------------------------------

// VH_C16_Recompile: a template is compiled, the caller changes the fields of the compiled value it was
// given (symbolic choice of which: name, source, timestamps, tree bytes) and overwrites the serialised
// bytes, and compiles / serialises the same template again: the second result describes the template,
// not the caller's edits, and loads and renders like the source.
func VH_C16_Recompile() {
	src := "s{{ x }}" + symStringIn(1, "pq")
	e := New()
	if e.RegisterString("t", src) != nil {
		return
	}
	c1, err := e.CompileTemplate("t")
	symAssert(err == nil && c1 != nil, "compiles")
	if err != nil || c1 == nil {
		return
	}
	d1, _ := SerializeCompiledTemplate(c1)
	lm, ct := c1.LastModified, c1.CompileTime
	if symBool() {
		c1.Name = "variant"
	}
	if symBool() {
		c1.Source = "VARIANT {{ x }}"
	}
	if symBool() {
		c1.LastModified, c1.CompileTime = 1, 2
	}
	if symBool() && len(c1.AST) > 0 {
		c1.AST[0] ^= 0xff
	}
	if symBool() {
		for i := range d1 {
			d1[i] = 0
		}
	}
	c2, err := e.CompileTemplate("t")
	symCover("recompiled")
	symAssert(err == nil && c2 != nil, "compiles-again")
	if err != nil || c2 == nil {
		return
	}
	symAssert(c2.Name == "t" && c2.Source == src, "second-compile-describes-the-template")
	symAssert(c2.LastModified == lm, "second-compile-keeps-the-template-timestamp")
	_ = ct
	d2, err := SerializeCompiledTemplate(c2)
	symAssert(err == nil, "serializes")
	e2 := New()
	symAssert(e2.LoadFromCompiledData(d2) == nil, "loads")
	x := symStringIn(1, "ab")
	o1, r1 := e.Render("t", map[string]interface{}{"x": x})
	o2, r2 := e2.Render("t", map[string]interface{}{"x": x})
	symAssert(r1 == nil && r2 == nil && o1 == o2, "renders-like-the-source")
}
