package twig

// C16: a compiled template is interchangeable with its source. Exported API only
// (CompiledTemplate, SerializeCompiledTemplate, DeserializeCompiledTemplate, Engine.CompileTemplate,
// Engine.LoadFromCompiledData).

// VH_C16_Frame: serialise followed by deserialise reproduces every field exactly.
func VH_C16_Frame() {
	nf := symParam("F", 3)
	c := &CompiledTemplate{Name: symString(symChoice(nf + 1)), Source: symString(symChoice(nf + 1)),
		LastModified: int64(symInt()), CompileTime: int64(symInt()), AST: []byte(symString(symChoice(nf + 1)))}
	data, err := SerializeCompiledTemplate(c)
	symAssert(err == nil, "serializes")
	if err != nil {
		return
	}
	symAssert(len(data) == 1+4+len(c.Name)+4+len(c.Source)+16+4+len(c.AST), "framing-length")
	d, err := DeserializeCompiledTemplate(data)
	symCover("roundtrip")
	symAssert(err == nil, "deserializes")
	if err != nil {
		return
	}
	symAssert(d.Name == c.Name, "name-equal")
	symAssert(d.Source == c.Source, "source-equal")
	symAssert(d.LastModified == c.LastModified && d.CompileTime == c.CompileTime, "times-equal")
	symAssert(string(d.AST) == string(c.AST), "ast-equal")
}

// VH_C16_Decode: arbitrary bytes decode to a value or an error (no panic); what decodes
// re-serialises to exactly the bytes consumed (canonical framing).
func VH_C16_Decode() {
	n := symChoice(symParam("N", 14) + 1)
	data := []byte(symString(n))
	d, err := DeserializeCompiledTemplate(data)
	symCover("decoded")
	if err != nil {
		symAssert(d == nil, "error-without-value")
		return
	}
	symCover("decoded-ok")
	back, err := SerializeCompiledTemplate(d)
	symAssert(err == nil, "reserializes")
	symAssert(len(back) <= len(data) && string(back) == string(data[:len(back)]), "canonical-framing")
}

var vhC16Corpus = []string{
	"a{{ x }}b",
	"{% if x %}T{% else %}F{% endif %}",
	"{% for i in xs %}[{{ i }}]{% endfor %}",
	"{% set y = x %}{{ y|upper }}",
	"{% macro m(a) %}<{{ a }}>{% endmacro %}{{ m(x) }}",
	"{{ x|e }}{# c #}{% verbatim %}v{% endverbatim %}",
}

// VH_C16_Render: compile -> serialise -> load on a second engine -> render equals render of the source,
// twice (the loaded template is reusable).
func VH_C16_Render() {
	var src string
	k := symChoice(len(vhC16Corpus) + 1)
	if k < len(vhC16Corpus) {
		src = vhC16Corpus[k]
	} else {
		src = symString(symChoice(symParam("N", 4) + 1))
	}
	x := symString(1)
	ctx := map[string]interface{}{"x": x, "xs": []interface{}{x, "q"}}
	e1 := New()
	if e1.RegisterString("t", src) != nil {
		return
	}
	want, werr := e1.Render("t", ctx)
	c, err := e1.CompileTemplate("t")
	symAssert(err == nil, "compiles")
	if err != nil {
		return
	}
	symAssert(c.Name == "t" && c.Source == src, "compiled-holds-name-and-source")
	data, err := SerializeCompiledTemplate(c)
	symAssert(err == nil, "serializes")
	e2 := New()
	err = e2.LoadFromCompiledData(data)
	symAssert(err == nil, "loads")
	if err != nil {
		return
	}
	got, gerr := e2.Render("t", ctx)
	symCover("rendered")
	symAssert((gerr == nil) == (werr == nil), "same-error")
	symAssert(got == want, "same-output")
	got2, gerr2 := e2.Render("t", ctx)
	symAssert((gerr2 == nil) == (werr == nil) && got2 == want, "same-output-again")
}

// VH_C16_Sequence: the bytes returned for one template stay valid while other templates are
// serialised, deserialised and loaded: serialise A, serialise B (and optionally compile/serialise on an
// engine in between), then deserialise A's bytes and B's bytes.
func VH_C16_Sequence() {
	nf := symParam("F", 2)
	a := &CompiledTemplate{Name: "A" + symString(symChoice(nf+1)), Source: symString(symChoice(nf + 1)), LastModified: int64(symInt()), CompileTime: 1, AST: []byte(symString(symChoice(nf + 1)))}
	b := &CompiledTemplate{Name: "B" + symString(symChoice(nf+1)), Source: "longer source than A " + symString(1), LastModified: 2, CompileTime: int64(symInt())}
	da, ea := SerializeCompiledTemplate(a)
	keep := string(da)
	mid := symChoice(3)
	var db []byte
	var eb error
	switch mid {
	case 0:
		db, eb = SerializeCompiledTemplate(b)
	case 1:
		e := New()
		e.RegisterString("t", "x{{ y }}")
		c, _ := e.CompileTemplate("t")
		SerializeCompiledTemplate(c)
		db, eb = SerializeCompiledTemplate(b)
	case 2:
		db, eb = SerializeCompiledTemplate(b)
		DeserializeCompiledTemplate(db)
		SerializeCompiledTemplate(a)
	}
	symCover("serialised")
	symAssert(ea == nil && eb == nil, "serializes")
	symAssert(string(da) == keep, "earlier-bytes-unchanged-by-later-calls")
	ra, era := DeserializeCompiledTemplate(da)
	rb, erb := DeserializeCompiledTemplate(db)
	symAssert(era == nil && erb == nil, "deserializes")
	if era != nil || erb != nil {
		return
	}
	symAssert(ra.Name == a.Name && ra.Source == a.Source && ra.LastModified == a.LastModified && string(ra.AST) == string(a.AST), "first-template-intact")
	symAssert(rb.Name == b.Name && rb.Source == b.Source && rb.CompileTime == b.CompileTime, "second-template-intact")
}
