package twig

import "errors"

// C06: a sandboxed include can never run a filter or function the policy forbids. Public API only.
// The security policy is symbolic: it answers a fresh symbolic bool per name (memoised), so one
// path covers every policy that agrees with it on the names consulted.

type vhPolicy struct {
	filt map[string]bool
	fn   map[string]bool
}

func (p *vhPolicy) IsFunctionAllowed(n string) bool {
	if b, ok := p.fn[n]; ok {
		return b
	}
	b := symBool()
	p.fn[n] = b
	return b
}
func (p *vhPolicy) IsFilterAllowed(n string) bool {
	if b, ok := p.filt[n]; ok {
		return b
	}
	b := symBool()
	p.filt[n] = b
	return b
}
func (p *vhPolicy) IsTagAllowed(n string) bool { return true }

// inner templates: every syntactic position of a filter (spy) / function (spyfn) name
var vhC06Inner = []string{
	"{{ x|spy }}",
	"{{ x|spy|upper }}",
	"{{ x|upper|spy }}",
	"{{ x|upper|spy|lower }}",
	"{% for i in xs|spy %}{{ i }}{% endfor %}",
	"{% for i in xs %}{{ i|spy }}{% endfor %}",
	"{% apply spy %}a{% endapply %}",
	"{{ spyfn() }}",
	"{{ spyfn()|upper }}",
	"{{ x|default(spyfn()) }}",
	"{{ max(1, spyfn()) }}",
	"{% if x|spy %}y{% endif %}",
	"{% if spyfn() %}y{% endif %}",
	"{% set z = x|spy %}{{ z }}",
	"{% set z = spyfn() %}{{ z }}",
	"{{ [x|spy][0] }}",
	"{{ {'k': spyfn()}['k'] }}",
	"{{ x ? x|spy : 1 }}",
	"{{ 'a' ~ (x|spy) }}",
	"{% for i in range(1, spyfn()) %}{{ i|spy }}{% endfor %}",
	"{% spaceless %}<a> {{ x|spy }}</a>{% endspaceless %}",
	// routes below the boundary
	"{% include 'leaf' %}",
	"{% include 'leaf' only %}",
	"{% include 'leaf' with {'x': 1} %}",
	"{% include 'leaf' with {'x': x|spy} only %}",
	"{% extends 'base' %}{% block b %}{{ x|spy }}{% endblock %}",
	"{% extends 'basespy' %}",
	"{% extends 'basespy' %}{% block b %}{{ parent() }}{% endblock %}",
	"{% import 'lib' as l %}{{ l.m(x) }}",
	"{% from 'lib' import m %}{{ m(x) }}",
	"{% macro k(a) %}{{ a|spy }}{% endmacro %}{{ k(x) }}",
	"{% macro k(a, b=spyfn()) %}{{ a }}{{ b }}{% endmacro %}{{ k(x) }}",
	"{% import 'lib' as l %}{{ l.m(spyfn()) }}",
	"{% include 'mid' %}",
	// libraries and layouts whose forbidden name stands at their top level (outside macros / blocks)
	"{% from 'libtop' import m %}{{ m(x) }}",
	"{% from 'libtop' import m as g %}{{ g(x) }}",
	"{% import 'libtop' as l %}{{ l.m(x) }}",
	"{% from 'libtopfilter' import m %}{{ m(x) }}",
	"{% import 'libtopfilter' as l %}ok",
	"{% include 'setstop' %}",
	"{% extends 'basetop' %}",
	"{% include 'includer-of-libtop' %}",
	"{% for i in xs %}{% from 'libtop' import m %}{% endfor %}",
	"{% macro k() %}{% from 'libtop' import m %}{{ m(1) }}{% endmacro %}{{ k() }}",
	// one name registered both as a filter and as a function: the policy answers for each separately
	"{{ dual() }}{{ x|dual }}",
	"{{ x|dual }}{{ dual() }}",
	"{{ dual()|dual }}",
	"{% for i in xs|dual %}{{ dual() }}{% endfor %}",
	"{{ x|spy }}{{ x|spy }}{{ spyfn() }}{{ spyfn() }}",
}

func vhC06Engine(pol SecurityPolicy, spyFname func(string), spyFnname func(string)) *Engine {
	spyF, spyFn := func() { spyFname("spy") }, func() { spyFnname("spyfn") }
	e := New()
	if pol != nil {
		e.EnableSandbox(pol)
	}
	e.AddFilter("spy", func(v interface{}, a ...interface{}) (interface{}, error) {
		spyF()
		return v, nil
	})
	e.AddFunction("spyfn", func(a ...interface{}) (interface{}, error) {
		spyFn()
		return 2, nil
	})
	e.AddFilter("dual", func(v interface{}, a ...interface{}) (interface{}, error) {
		spyFname("dual")
		return v, nil
	})
	e.AddFunction("dual", func(a ...interface{}) (interface{}, error) {
		spyFnname("dual")
		return "D", nil
	})
	e.RegisterString("leaf", "{{ x|spy }}{{ spyfn() }}")
	e.RegisterString("mid", "{% include 'leaf' %}")
	e.RegisterString("base", "[{% block b %}d{% endblock %}]")
	e.RegisterString("basespy", "[{% block b %}{{ x|spy }}{% endblock %}]")
	e.RegisterString("lib", "{% macro m(p) %}({{ p|spy }}{{ spyfn() }}){% endmacro %}")
	e.RegisterString("libtop", "{% set t = spyfn() %}{% macro m(p) %}({{ p }}){% endmacro %}")
	e.RegisterString("libtopfilter", "{% set t = 'x'|spy %}{% macro m(p) %}({{ p }}){% endmacro %}")
	e.RegisterString("setstop", "{% set t = spyfn() %}{% do 'q'|spy %}s")
	e.RegisterString("basetop", "{% set t = spyfn() %}[{% block b %}d{% endblock %}]")
	e.RegisterString("includer-of-libtop", "{% from 'libtop' import m %}{{ m(2) }}")
	return e
}

// VH_C06_Confine: the outer template consists of the sandboxed include only, so every invocation of
// a spy is inside the sandbox; the spy asserts that the policy allows its name on this path.
func VH_C06_Confine() {
	k := symParam("K", -1)
	if k < 0 {
		k = symChoice(len(vhC06Inner))
	}
	symTag("inner:" + vhC06Inner[k])
	pol := &vhPolicy{filt: map[string]bool{}, fn: map[string]bool{}}
	e := vhC06Engine(pol, func(n string) {
		symCover("spy-filter-invoked")
		symAssert(pol.IsFilterAllowed(n), "forbidden-filter-invoked")
	}, func(n string) {
		symCover("spy-fn-invoked")
		symAssert(pol.IsFunctionAllowed(n), "forbidden-function-invoked")
	})
	if e.RegisterString("main", "[{% include 'inner' sandboxed %}]") != nil {
		return
	}
	if symParam("FOREIGN", 0) == 1 {
		// the included template object was built by another engine (one without a policy) and handed
		// to this one: the policy of the engine that renders still confines it
		symTag("foreign-template")
		lib := vhC06Engine(nil, func(n string) {
			symAssert(pol.IsFilterAllowed(n), "forbidden-filter-invoked")
		}, func(n string) {
			symAssert(pol.IsFunctionAllowed(n), "forbidden-function-invoked")
		})
		tp, err := lib.ParseTemplate(vhC06Inner[k])
		if err != nil {
			symAssert(false, "inner-template-parses")
			return
		}
		e.RegisterTemplate("inner", tp)
	} else if err := e.RegisterString("inner", vhC06Inner[k]); err != nil {
		symAssert(false, "inner-template-parses")
		return
	}
	ctx := map[string]interface{}{"x": "v", "xs": []interface{}{"a"}}
	out, err := e.Render("main", ctx)
	symCover("rendered")
	// every name the policy was asked about and denied => the render must have failed with a
	// security violation; if nothing was denied the render succeeds and equals the unsandboxed output
	denied := false
	for _, b := range pol.filt {
		if !b {
			denied = true
		}
	}
	for _, b := range pol.fn {
		if !b {
			denied = true
		}
	}
	if denied {
		symCover("denied")
		symAssert(err != nil, "denied-name-fails-render")
		if err != nil {
			var sv *SecurityViolation
			symAssert(errors.As(err, &sv), "error-is-security-violation")
		}
	} else {
		symCover("all-allowed")
		e2 := vhC06Engine(nil, func(string) {}, func(string) {})
		// reference: the inner template rendered directly, outside any sandbox
		e2.RegisterString("inner", vhC06Inner[k])
		want, werr := e2.Render("inner", ctx)
		symAssert(err == nil && werr == nil, "allowed-constructs-work")
		symAssert(out == "["+want+"]", "allowed-output-equals-unsandboxed")
	}
}

// VH_C06_Outside: the including template keeps its normal permissions: after (and before) a
// sandboxed include it can call names the policy forbids.
func VH_C06_Outside() {
	pol := &vhPolicy{filt: map[string]bool{}, fn: map[string]bool{}}
	calls := 0
	e := vhC06Engine(pol, func(string) { calls++ }, func(string) { calls++ })
	e.RegisterString("inner", "i{{ x|upper }}")
	if e.RegisterString("main", "{{ x|spy }}{% include 'inner' sandboxed %}{{ x|spy }}{{ spyfn() }}") != nil {
		return
	}
	out, err := e.Render("main", map[string]interface{}{"x": "v"})
	symCover("rendered")
	if pol.IsFilterAllowed("upper") {
		symAssert(err == nil, "outer-keeps-permissions")
		symAssert(out == "viVv2" && calls == 3, "outer-output")
	} else {
		symAssert(err != nil, "denied-name-fails-render")
	}
}

// VH_C06_Revoke: the policy is consulted for what it says now. Between R renders of the same
// sandboxed include the owner of the policy changes its answers (fresh symbolic answers per render);
// a spy that runs must be allowed by the answers in force during that render.
func VH_C06_Revoke() {
	r := symParam("R", 2)
	k := symChoice(4)
	inner := []string{"{{ x|spy }}", "{{ spyfn() }}", "{{ x|spy }}{{ spyfn() }}", "{% for i in xs %}{{ i|spy }}{{ dual() }}{{ i|dual }}{% endfor %}"}[k]
	symTag("inner:" + inner)
	pol := &vhPolicy{filt: map[string]bool{}, fn: map[string]bool{}}
	e := vhC06Engine(pol, func(n string) {
		symCover("spy-filter-invoked")
		symAssert(pol.IsFilterAllowed(n), "forbidden-filter-invoked")
	}, func(n string) {
		symCover("spy-fn-invoked")
		symAssert(pol.IsFunctionAllowed(n), "forbidden-function-invoked")
	})
	e.RegisterString("inner", inner)
	if e.RegisterString("main", "[{% include 'inner' sandboxed %}]") != nil {
		return
	}
	ctx := map[string]interface{}{"x": "v", "xs": []interface{}{"a"}}
	for i := 0; i < r; i++ {
		pol.filt, pol.fn = map[string]bool{}, map[string]bool{}
		_, err := e.Render("main", ctx)
		denied := false
		for _, b := range pol.filt {
			denied = denied || !b
		}
		for _, b := range pol.fn {
			denied = denied || !b
		}
		if denied {
			symAssert(err != nil, "denied-name-fails-render")
		}
	}
	symCover("rendered")
}

// ---- C06.builtins: the engine's own filters and functions are subject to the policy as well -----------

var vhC06Builtins = []struct {
	fn   bool
	name string
	tpl  string
}{
	{true, "range", "{{ range(1, 2)|length }}"}, {true, "length", "{{ length(xs) }}"}, {true, "count", "{{ count(xs) }}"},
	{true, "max", "{{ max(1, 2) }}"}, {true, "min", "{{ min(1, 2) }}"}, {true, "cycle", "{{ cycle(xs, 0) }}"},
	{true, "date", "{{ date('2024-01-02')|length > 0 }}"}, {true, "include", "{{ include('leaf2') }}"},
	{true, "merge", "{{ merge(xs, xs)|length }}"}, {true, "constant", "{{ constant('X') }}"},
	{true, "count", "{% if count(xs) > 0 %}y{% endif %}"}, {true, "count", "{% for i in range(1, count(xs)) %}{{ i }}{% endfor %}"},
	{false, "upper", "{{ x|upper }}"}, {false, "length", "{{ xs|length }}"}, {false, "count", "{{ xs|count }}"},
	{false, "e", "{{ x|e }}"}, {false, "escape", "{{ x|escape }}"}, {false, "join", "{{ xs|join(',') }}"},
	{false, "default", "{{ nosuch|default('d') }}"}, {false, "raw", "{{ x|raw }}"}, {false, "first", "{{ xs|first }}"},
	{false, "escape", "{% apply escape %}{{ x }}{% endapply %}"}, {false, "e", "{% macro k(a) %}{{ a|e }}{% endmacro %}{{ k(x) }}"},
}

// VH_C06_Builtins: one use of a built-in function or filter inside a sandboxed include under a symbolic
// policy: the render succeeds exactly when the policy allows that name in that role, and fails with a
// security violation otherwise. (The harness cannot spy on built-ins; refusal is observed instead.)
func VH_C06_Builtins() {
	k := symChoice(len(vhC06Builtins))
	b := vhC06Builtins[k]
	role := "filter:"
	if b.fn {
		role = "function:"
	}
	symTag("use:" + role + b.name + " in " + b.tpl)
	pol := &vhPolicy{filt: map[string]bool{}, fn: map[string]bool{}}
	e := New()
	e.EnableSandbox(pol)
	e.RegisterString("leaf2", "L")
	e.RegisterString("inner", b.tpl)
	if e.RegisterString("main", "[{% include 'inner' sandboxed %}]") != nil {
		return
	}
	_, err := e.Render("main", map[string]interface{}{"x": "v", "xs": []interface{}{"a", "b"}})
	symCover("rendered")
	// every other name the template needs is allowed only if the policy said so; the name under test:
	var allowed bool
	if b.fn {
		allowed = pol.IsFunctionAllowed(b.name)
	} else {
		allowed = pol.IsFilterAllowed(b.name)
	}
	if !allowed {
		symCover("denied")
		symAssert(err != nil, "denied-builtin-fails-render")
		if err != nil {
			var sv *SecurityViolation
			symAssert(errors.As(err, &sv), "error-is-security-violation")
		}
	}
}
