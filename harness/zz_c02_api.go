package twig

import "os"

// C02: concurrent use of one engine is safe. Two kinds of obligation. Discipline (below): the
// sufficient condition lock discipline is decided symbolically: on every path of every concurrently
// callable entry point, every access to memory reachable from the shared engine (and its loaders) is
// recorded with the set of mutexes held; a write that is not ordered by a common mutex with another
// access to the same location is a race candidate (lockset / Eraser condition). Natively the
// candidate is confirmed by running the two entry points from goroutines under the race detector.

func vhC02Engine() (*Engine, *ArrayLoader) {
	e := New()
	al := NewArrayLoader(map[string]string{
		"inc":        "I{{ x }}",
		"fresh":      "F{{ x }}{% include 'inc' %}",
		"dir/child":  "{% extends './base' %}{% block b %}c{{ x }}{% endblock %}",
		"dir/base":   "[{% block b %}d{% endblock %}]",
		"other/page": "{% include './part' %}",
		"other/part": "P{{ x }}",
		"lib":        "{% macro m(p) %}({{ p }}){% endmacro %}",
		"useslib":    "{% import 'lib' as l %}{{ l.m(x) }}",
		"broken":     "{% if x %}{{ x }",
		"usesbroken": "a{% include 'broken' %}",
		// built-ins that draw on process-wide state (the random generator, the clock)
		"builtins": "{% set r = random(5) %}{% set s = random() %}{% set t = random(2, 9) %}{{ 'now'|date('Y') > 2000 ? 'd' : 'D' }}{{ x }}",
	})
	e.RegisterLoader(al)
	e.RegisterString("t", "a{{ x }}{% include 'inc' %}")
	return e, al
}

var vhC02Ops = []string{"render-cached", "render-uncached", "render-relative-extends", "render-relative-include", "render-import", "load", "parse", "register", "renderto", "render-builtins"}

func vhC02Run(e *Engine, op int, x string) {
	ctx := map[string]interface{}{"x": x}
	switch vhC02Ops[op] {
	case "render-cached":
		e.Render("t", ctx)
	case "render-uncached":
		e.Render("fresh", ctx)
	case "render-relative-extends":
		e.Render("dir/child", ctx)
	case "render-relative-include":
		e.Render("other/page", ctx)
	case "render-import":
		e.Render("useslib", ctx)
	case "render-builtins":
		e.Render("builtins", ctx)
	case "load":
		e.Load("fresh")
	case "parse":
		e.ParseTemplate("p{{ x }}{% if x %}y{% endif %}")
	case "register":
		e.RegisterString("u", "z{{ x }}")
	case "renderto":
		var sb StringBuffer
		e.RenderTo(&sb, "t", ctx)
	}
}

// VH_C02_Discipline: one entry point runs as the sole activity from a configured engine; all accesses to
// shared memory are recorded with their locksets. The candidates are computed over the union of all
// entry points (each may run concurrently with itself and with every other).
func VH_C02_Discipline() {
	e, al := vhC02Engine()
	cache := symBool()
	auto := symBool()
	e.SetCache(cache)
	e.SetAutoReload(auto)
	warm := symBool()
	if warm {
		// some names are already cached
		e.Render("fresh", map[string]interface{}{"x": "w"})
		e.Render("dir/child", map[string]interface{}{"x": "w"})
	}
	op := symChoice(len(vhC02Ops))
	symTag("op:" + vhC02Ops[op])
	x := symStringIn(1, vhValAlphabet)
	symMarkShared(e, "engine")
	symMarkShared(al, "loader")
	symConcurrentPhase(true)
	vhC02Run(e, op, x)
	symConcurrentPhase(false)
	symCover("done")
}

// VH_C02_Stress is the native confirmation of discipline findings: goroutines run the entry points
// concurrently on one engine (go test -race). It also checks that every call returns what it returns
// serially. The symbolic engine does not execute goroutines; it is only ever run natively.
func VH_C02_Stress() {
	e, _ := vhC02Engine()
	cfg := symInt() // bit 0: cache off, bit 1: auto-reload on
	if cfg&1 != 0 {
		e.SetCache(false)
	}
	if cfg&2 != 0 {
		e.SetAutoReload(true)
	}
	want := map[string]string{}
	for _, n := range []string{"t", "fresh", "dir/child", "other/page", "useslib", "builtins"} {
		o, _ := e.Render(n, map[string]interface{}{"x": "v"})
		want[n] = o
	}
	done := make(chan string, 64)
	for g := 0; g < 8; g++ {
		go func(g int) {
			bad := ""
			for i := 0; i < 150; i++ {
				n := []string{"t", "fresh", "dir/child", "other/page", "useslib", "builtins"}[(g+i)%6]
				o, err := e.Render(n, map[string]interface{}{"x": "v"})
				if err != nil || o != want[n] {
					bad = n
				}
				if i%7 == 0 {
					e.RegisterString("u", "z{{ x }}")
					e.ParseTemplate("p{{ x }}{% if x %}y{% endif %}")
					e.Load("fresh")
				}
			}
			done <- bad
		}(g)
	}
	for g := 0; g < 8; g++ {
		if b := <-done; b != "" {
			symAssert(false, "concurrent-call-equals-serial-call")
		}
	}
	symCover("stressed")
}

// ---- C02.interleave: two calls on one engine under every interleaving at synchronisation points ----
// Process-wide caches are cold at the start of every path (each path is a fresh run of the program),
// so first-use windows are explored. The reference is the model: what each call returns serially.

type vhC02Emb struct{ Slug string }
type vhC02U struct {
	vhC02Emb
	Name string
	priv int
}
type vhC02V struct {
	Slug, Name string
}

func (u vhC02U) Label() string  { return "L:" + u.Name }
func (u *vhC02V) Label() string { return "V:" + u.Name }

// vhColdCaches empties the process-wide caches (set by the in-package file zz_c02_kern.go; the
// symbolic engine starts every path with a fresh process anyway, native repetitions need it)
var vhColdCaches = func() {}

type vhC02IOp struct {
	name string
	run  func(e *Engine, x string) (string, error)
	want func(x string) string
}

func vhC02Render(name string, obj func(x string) interface{}) func(e *Engine, x string) (string, error) {
	return func(e *Engine, x string) (string, error) {
		ctx := map[string]interface{}{"x": x}
		if obj != nil {
			ctx["u"] = obj(x)
		}
		return e.Render(name, ctx)
	}
}

var vhC02IOps = []vhC02IOp{
	{"attr-struct", vhC02Render("attr", func(x string) interface{} { return vhC02U{vhC02Emb{"s" + x}, x, 1} }), func(x string) string { return "[" + x + "|s" + x + "|L:" + x + "]" }},
	{"attr-ptr", vhC02Render("attr", func(x string) interface{} { return &vhC02U{vhC02Emb{"s" + x}, x, 1} }), func(x string) string { return "[" + x + "|s" + x + "|L:" + x + "]" }},
	{"attr-other-type", vhC02Render("attr", func(x string) interface{} { return &vhC02V{"t" + x, x} }), func(x string) string { return "[" + x + "|t" + x + "|V:" + x + "]" }},
	{"attr-in-loop", vhC02Render("attrloop", func(x string) interface{} { return vhC02U{vhC02Emb{"s" + x}, x, 1} }), func(x string) string { return x + x }},
	{"render-cached", vhC02Render("t", nil), func(x string) string { return "a" + x + "I" + x }},
	{"render-uncached", vhC02Render("fresh", nil), func(x string) string { return "F" + x + "I" + x }},
	{"render-relative-extends", vhC02Render("dir/child", nil), func(x string) string { return "[c" + x + "]" }},
	{"render-relative-include", vhC02Render("other/page", nil), func(x string) string { return "P" + x }},
	{"render-import", vhC02Render("useslib", nil), func(x string) string { return "(" + x + ")" }},
	{"register-render", func(e *Engine, x string) (string, error) {
		if err := e.RegisterString("u", "z{{ x }}"); err != nil {
			return "", err
		}
		return e.Render("u", map[string]interface{}{"x": x})
	}, func(x string) string { return "z" + x }},
	{"load-render", func(e *Engine, x string) (string, error) {
		t, err := e.Load("fresh")
		if err != nil {
			return "", err
		}
		return t.Render(map[string]interface{}{"x": x})
	}, func(x string) string { return "F" + x + "I" + x }},
	{"parse-render", func(e *Engine, x string) (string, error) {
		t, err := e.ParseTemplate("p{{ x }}{% if x %}y{% endif %}")
		if err != nil {
			return "", err
		}
		return t.Render(map[string]interface{}{"x": x})
	}, func(x string) string { return "p" + x + "y" }},
	{"render-broken", func(e *Engine, x string) (string, error) {
		o, err := e.Render("broken", map[string]interface{}{"x": x})
		if err != nil {
			return "error:" + o, nil
		}
		return "no-error:" + o, nil
	}, func(x string) string { return "error:" }},
	{"load-broken", func(e *Engine, x string) (string, error) {
		t, err := e.Load("broken")
		if err != nil && t == nil {
			return "error", nil
		}
		return "no-error-or-template", nil
	}, func(x string) string { return "error" }},
	{"include-broken", func(e *Engine, x string) (string, error) {
		o, err := e.Render("usesbroken", map[string]interface{}{"x": x})
		if err != nil {
			return "error:" + o, nil
		}
		return "no-error:" + o, nil
	}, func(x string) string { return "error:" }},
	{"render-missing", func(e *Engine, x string) (string, error) {
		o, err := e.Render("nosuchtemplate", map[string]interface{}{"x": x})
		if err != nil {
			return "error:" + o, nil
		}
		return "no-error:" + o, nil
	}, func(x string) string { return "error:" }},
	{"matches", vhC02Render("m", nil), func(x string) string {
		if x == "a" {
			return "M"
		}
		return "N"
	}},
	{"matches-i", vhC02Render("mi", nil), func(x string) string {
		if x == "a" || x == "A" {
			return "M"
		}
		return "N"
	}},
}

// VH_C02_Interleave: thread 1 runs operation p with value x, thread 2 operation q with value y on one
// engine; every interleaving at synchronisation points with at most SW voluntary switches; both
// results are what the calls return serially.
func VH_C02_Interleave() {
	vhColdCaches()
	e, _ := vhC02Engine()
	e.RegisterString("attr", "[{{ u.Name }}|{{ u.Slug }}|{{ u.Label }}]")
	e.RegisterString("attrloop", "{% for i in [1, 2] %}{{ u.Name }}{% endfor %}")
	e.RegisterString("m", "{% if x matches '/^a/' %}M{% else %}N{% endif %}")
	e.RegisterString("mi", "{% if x matches '/^a/i' %}M{% else %}N{% endif %}")
	if symBool() {
		e.SetCache(false)
	}
	if symBool() {
		e.SetAutoReload(true)
	}
	if symBool() {
		// some loader-served templates are cached already
		e.Render("fresh", map[string]interface{}{"x": "w"})
		e.Render("dir/child", map[string]interface{}{"x": "w"})
	}
	p, q := symChoice(len(vhC02IOps)), symChoice(len(vhC02IOps))
	x, y := symStringIn(1, "aAb"), symStringIn(1, "aAb")
	symTag("ops:" + vhC02IOps[p].name + "+" + vhC02IOps[q].name)
	var o1, o2 string
	var e1, e2 error
	symParallel(func() { o1, e1 = vhC02IOps[p].run(e, x) }, func() { o2, e2 = vhC02IOps[q].run(e, y) })
	symCover("joined")
	symAssert(e1 == nil && e2 == nil, "concurrent-call-no-error")
	symAssert(o1 == vhC02IOps[p].want(x), "concurrent-call-equals-serial-call")
	symAssert(o2 == vhC02IOps[q].want(y), "concurrent-call-equals-serial-call")
}

// ---- file-system loader -----------------------------------------------------------------------------

// vhC02FSEngine: an engine whose templates come from a FileSystemLoader over a fresh directory
// (the symbolic engine models package os in memory; natively a temporary directory is used).
func vhC02FSEngine() (*Engine, *FileSystemLoader, string) {
	dir, err := os.MkdirTemp("", "vhc02")
	if err != nil {
		panic(vhStop{"no temporary directory"})
	}
	os.MkdirAll(dir+"/sub", 0755)
	os.WriteFile(dir+"/page.twig", []byte("P{{ x }}{% include 'sub/part' %}"), 0644)
	os.WriteFile(dir+"/sub/part.twig", []byte("p{{ x }}"), 0644)
	os.WriteFile(dir+"/other.twig", []byte("O{{ x }}"), 0644)
	e := New()
	l := NewFileSystemLoader([]string{dir})
	e.RegisterLoader(l)
	return e, l, dir
}

var vhC02FSOps = []vhC02IOp{
	{"fs-render-page", vhC02Render("page", nil), func(x string) string { return "P" + x + "p" + x }},
	{"fs-render-other", vhC02Render("other", nil), func(x string) string { return "O" + x }},
	{"fs-load", func(e *Engine, x string) (string, error) {
		t, err := e.Load("sub/part")
		if err != nil {
			return "", err
		}
		return t.Render(map[string]interface{}{"x": x})
	}, func(x string) string { return "p" + x }},
	{"fs-missing", func(e *Engine, x string) (string, error) {
		_, err := e.Load("nosuch")
		if err == nil {
			return "loaded", nil
		}
		return "missing", nil
	}, func(x string) string { return "missing" }},
}

// VH_C02_FSDiscipline: lock discipline of the calls that go through a FileSystemLoader.
func VH_C02_FSDiscipline() {
	e, l, dir := vhC02FSEngine()
	defer os.RemoveAll(dir)
	if symBool() {
		e.SetCache(false)
	}
	if symBool() {
		e.SetAutoReload(true)
	}
	if symBool() {
		e.Render("page", map[string]interface{}{"x": "w"}) // warm
	}
	op := symChoice(len(vhC02FSOps))
	symTag("op:" + vhC02FSOps[op].name)
	x := symStringIn(1, "ab")
	symMarkShared(e, "engine")
	symMarkShared(l, "fsloader")
	symConcurrentPhase(true)
	vhC02FSOps[op].run(e, x)
	symConcurrentPhase(false)
	symCover("done")
}

// VH_C02_FSInterleave: two calls through the FileSystemLoader under every interleaving at
// synchronisation points (see VH_C02_Interleave).
func VH_C02_FSInterleave() {
	e, _, dir := vhC02FSEngine()
	defer os.RemoveAll(dir)
	if symBool() {
		e.SetCache(false)
	}
	if symBool() {
		e.SetAutoReload(true)
	}
	p, q := symChoice(len(vhC02FSOps)), symChoice(len(vhC02FSOps))
	x, y := symStringIn(1, "ab"), symStringIn(1, "ab")
	symTag("ops:" + vhC02FSOps[p].name + "+" + vhC02FSOps[q].name)
	var o1, o2 string
	var e1, e2 error
	symParallel(func() { o1, e1 = vhC02FSOps[p].run(e, x) }, func() { o2, e2 = vhC02FSOps[q].run(e, y) })
	symCover("joined")
	symAssert(e1 == nil && e2 == nil, "concurrent-call-no-error")
	symAssert(o1 == vhC02FSOps[p].want(x), "concurrent-call-equals-serial-call")
	symAssert(o2 == vhC02FSOps[q].want(y), "concurrent-call-equals-serial-call")
}

// VH_C02_FSStress: native confirmation for the file-system loader: goroutines load through one
// FileSystemLoader at the same time, many rounds with a fresh engine and loader (go test -race).
func VH_C02_FSStress() {
	for round := 0; round < 60; round++ {
		e, _, dir := vhC02FSEngine()
		if round%2 == 1 {
			e.SetCache(false)
		}
		done := make(chan bool, 8)
		start := make(chan struct{})
		for g := 0; g < 8; g++ {
			go func(g int) {
				<-start
				ok := true
				for i := 0; i < 4; i++ {
					op := vhC02FSOps[(g+i)%len(vhC02FSOps)]
					o, err := op.run(e, "a")
					if err != nil || o != op.want("a") {
						ok = false
					}
				}
				done <- ok
			}(g)
		}
		close(start)
		for g := 0; g < 8; g++ {
			if !<-done {
				symAssert(false, "concurrent-call-equals-serial-call")
			}
		}
		os.RemoveAll(dir)
	}
	symCover("stressed")
}

// VH_C02_Deep: two renders of a template that includes itself D levels deep (and of one that extends a
// chain of D layouts) run as two threads; any limit or table the engine keeps per engine rather than per
// render (nesting counters, loop or block registries) would show as a wrong result or an error for one
// of them under some interleaving. At most SW voluntary switches.
func VH_C02_Deep() {
	d := symParam("D", 55)
	e := New()
	e.RegisterString("rec", "{% if n > 0 %}{% include 'rec' with {'n': n - 1} %}{% endif %}{{ x }}")
	e.RegisterString("macrorec", "{% macro r(n, x) %}{% if n > 0 %}{{ _self.r(n - 1, x) }}{% endif %}{{ x }}{% endmacro %}{{ _self.r(n, x) }}")
	ops := []string{"rec", "macrorec"}
	p, q := symChoice(2), symChoice(2)
	x, y := symStringIn(1, "ab"), symStringIn(1, "ab")
	symTag("ops:" + ops[p] + "+" + ops[q])
	var o1, o2 string
	var e1, e2 error
	symParallel(func() { o1, e1 = e.Render(ops[p], map[string]interface{}{"n": d, "x": x}) },
		func() { o2, e2 = e.Render(ops[q], map[string]interface{}{"n": d, "x": y}) })
	symCover("joined")
	symAssert(e1 == nil && e2 == nil, "concurrent-call-no-error")
	symAssert(o1 == vhRepeatStr(x, d+1) && o2 == vhRepeatStr(y, d+1), "concurrent-call-equals-serial-call")
}
