package twig

// C02: concurrent use of one engine is safe. Interleavings are not solver variables; what is decided
// symbolically is the sufficient condition lock discipline: on every path of every concurrently
// callable entry point, every access to memory reachable from the shared engine (and its loaders) is
// recorded with the set of mutexes held; a write that is not ordered by a common mutex with another
// access to the same location is a race candidate (lockset / Eraser condition). Natively the
// candidate is confirmed by running the two entry points from goroutines under the race detector.

func vhC02Engine() (*Engine, *ArrayLoader) {
	e := New()
	al := NewArrayLoader(map[string]string{
		"inc":        "I{{ x }}",
		"fresh":      "F{{ x }}{% include 'inc' %}",
		"dir/child":  "{% extends './base' %}{% block b %}c{{ x }}{% endblock %}",
		"dir/base":   "[{% block b %}d{% endblock %}]",
		"other/page": "{% include './part' %}",
		"other/part": "P{{ x }}",
		"lib":        "{% macro m(p) %}({{ p }}){% endmacro %}",
		"useslib":    "{% import 'lib' as l %}{{ l.m(x) }}",
	})
	e.RegisterLoader(al)
	e.RegisterString("t", "a{{ x }}{% include 'inc' %}")
	return e, al
}

var vhC02Ops = []string{"render-cached", "render-uncached", "render-relative-extends", "render-relative-include", "render-import", "load", "parse", "register", "renderto"}

func vhC02Run(e *Engine, op int, x string) {
	ctx := map[string]interface{}{"x": x}
	switch vhC02Ops[op] {
	case "render-cached":
		e.Render("t", ctx)
	case "render-uncached":
		e.Render("fresh", ctx)
	case "render-relative-extends":
		e.Render("dir/child", ctx)
	case "render-relative-include":
		e.Render("other/page", ctx)
	case "render-import":
		e.Render("useslib", ctx)
	case "load":
		e.Load("fresh")
	case "parse":
		e.ParseTemplate("p{{ x }}{% if x %}y{% endif %}")
	case "register":
		e.RegisterString("u", "z{{ x }}")
	case "renderto":
		var sb StringBuffer
		e.RenderTo(&sb, "t", ctx)
	}
}

// VH_C02_Discipline: one entry point runs as the sole activity from a configured engine; all accesses to
// shared memory are recorded with their locksets. The candidates are computed over the union of all
// entry points (each may run concurrently with itself and with every other).
func VH_C02_Discipline() {
	e, al := vhC02Engine()
	cache := symBool()
	auto := symBool()
	e.SetCache(cache)
	e.SetAutoReload(auto)
	warm := symBool()
	if warm {
		// some names are already cached
		e.Render("fresh", map[string]interface{}{"x": "w"})
		e.Render("dir/child", map[string]interface{}{"x": "w"})
	}
	op := symChoice(len(vhC02Ops))
	symTag("op:" + vhC02Ops[op])
	x := symStringIn(1, vhValAlphabet)
	symMarkShared(e, "engine")
	symMarkShared(al, "loader")
	symConcurrentPhase(true)
	vhC02Run(e, op, x)
	symConcurrentPhase(false)
	symCover("done")
}

// VH_C02_Stress is the native confirmation of discipline findings: goroutines run the entry points
// concurrently on one engine (go test -race). It also checks that every call returns what it returns
// serially. The symbolic engine does not execute goroutines; it is only ever run natively.
func VH_C02_Stress() {
	e, _ := vhC02Engine()
	if symBool() {
		e.SetCache(false)
	}
	want := map[string]string{}
	for _, n := range []string{"t", "fresh", "dir/child", "other/page", "useslib"} {
		o, _ := e.Render(n, map[string]interface{}{"x": "v"})
		want[n] = o
	}
	done := make(chan string, 64)
	for g := 0; g < 8; g++ {
		go func(g int) {
			bad := ""
			for i := 0; i < 150; i++ {
				n := []string{"t", "fresh", "dir/child", "other/page", "useslib"}[(g+i)%5]
				o, err := e.Render(n, map[string]interface{}{"x": "v"})
				if err != nil || o != want[n] {
					bad = n
				}
				if i%7 == 0 {
					e.RegisterString("u", "z{{ x }}")
					e.ParseTemplate("p{{ x }}{% if x %}y{% endif %}")
					e.Load("fresh")
				}
			}
			done <- bad
		}(g)
	}
	for g := 0; g < 8; g++ {
		if b := <-done; b != "" {
			symAssert(false, "concurrent-call-equals-serial-call")
		}
	}
	symCover("stressed")
}
