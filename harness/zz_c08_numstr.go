package twig

// VH_C08_NumStrings: the ordering operators compare numerically when one or both operands are
// strings that spell integers (different digit counts and signs, where byte order and numeric order
// disagree); string/string, string/int and int/string operand pairs agree with integer comparison.
func VH_C08_NumStrings() {
	ss := []string{"-10", "-9", "-1", "0", "2", "9", "10", "100"}
	is := []int{-10, -9, -1, 0, 2, 9, 10, 100}
	i, j := symChoice(8), symChoice(8)
	a, b, ai, bi := ss[i], ss[j], is[i], is[j]
	out, err := vhR("{{ a < b }}|{{ a <= b }}|{{ a > b }}|{{ a >= b }}|{{ a < bi }}|{{ ai >= b }}|{{ a > bi }}|{{ ai <= b }}|{% if a < b %}y{% else %}n{% endif %}|{{ (a ~ '') < (b ~ '') }}",
		map[string]interface{}{"a": a, "b": b, "ai": ai, "bi": bi})
	symCover("rendered")
	symAssert(err == nil, "renders")
	bs := func(x bool) string {
		if x {
			return "true"
		}
		return "false"
	}
	yn := "n"
	if ai < bi {
		yn = "y"
	}
	want := bs(ai < bi) + "|" + bs(ai <= bi) + "|" + bs(ai > bi) + "|" + bs(ai >= bi) + "|" + bs(ai < bi) + "|" + bs(ai >= bi) + "|" + bs(ai > bi) + "|" + bs(ai <= bi) + "|" + yn + "|" + bs(ai < bi)
	symAssert(out == want, "numeric-strings-compare-numerically")
}
