package twig

import "errors"

// C17: failures during rendering always surface as errors that wrap their cause. Public API only.
// Fault schedule: the k-th invocation (k symbolic) of any harness callback fails with a sentinel.

var vhSentinel = errors.New("SENTINEL-CAUSE")

type vhFaultLoader struct {
	tpl  map[string]string
	tick func() bool // true => fail now
}

func (l *vhFaultLoader) Load(name string) (string, error) {
	s, ok := l.tpl[name]
	if !ok {
		return "", ErrTemplateNotFound
	}
	if l.tick() {
		return "", vhSentinel
	}
	return s, nil
}
func (l *vhFaultLoader) Exists(name string) bool { _, ok := l.tpl[name]; return ok }

// templates with callbacks (filter boom, function boomfn, test boomt, loader-served templates L1, L2)
// in every structural position
var vhC17Tpl = []string{
	"a{{ x|boom }}b",
	"{{ x|boom|boom }}",
	"{{ x|upper|boom|lower }}",
	"{{ boomfn(x) }}",
	"{{ boomfn(x)|boom }}",
	"{{ x|default(boomfn(x)) }}",
	"{% if x is boomt %}y{% endif %}",
	"{% if x|boom %}y{% else %}n{% endif %}",
	"{% if false %}a{% elseif boomfn(x) %}b{% endif %}",
	"{% for i in xs %}{{ i|boom }}{% endfor %}",
	"{% for i in xs|boom %}{{ i }}{% endfor %}",
	"{% for i in boomfn(xs) %}{{ i }}{% else %}e{% endfor %}",
	"{% set z = x|boom %}{{ z }}",
	"{% set z = boomfn(x) %}[{{ z }}]",
	"{% do boomfn(x) %}",
	"{% spaceless %}<a> {{ x|boom }}</a>{% endspaceless %}",
	"{% apply boom %}a{{ x }}{% endapply %}",
	"{% apply upper %}a{{ x|boom }}{% endapply %}",
	"{% macro m(a) %}{{ a|boom }}{% endmacro %}{{ m(x) }}",
	"{% macro m(a, b=boomfn(1)) %}{{ a }}{{ b }}{% endmacro %}{{ m(x) }}",
	"{% macro m(a) %}{{ a }}{% endmacro %}{{ m(boomfn(x)) }}",
	"{% block b %}{{ x|boom }}{% endblock %}",
	"{% include 'inc' %}",
	"{% include 'inc' with {'x': boomfn(x)} %}",
	"{% include 'L1' %}",
	"{% include 'L1' ignore missing %}",
	"{% extends 'base' %}{% block b %}{{ x|boom }}{% endblock %}",
	"{% extends 'basefault' %}",
	"{% extends 'basefault' %}{% block b %}<{{ parent() }}>{% endblock %}",
	"{% extends 'L2' %}{% block b %}c{% endblock %}",
	"{% import 'lib' as l %}{{ l.m(x) }}",
	"{% from 'lib' import m %}{{ m(x) }}",
	"{% import 'L3' as l %}{{ l.m(x) }}",
	"{{ [x|boom, 1]|length }}",
	"{{ {'k': boomfn(x)}|length }}",
	"{{ x ? boomfn(x) : 1 }}",
	"{{ 'a' ~ (x|boom) ~ 'b' }}",
	"{{ (x|boom) == 1 }}",
	"{{ xs[boomfn(0)] }}",
	"{% for i in xs %}{% if loop.first %}{{ i|boom }}{% endif %}{% include 'inc' %}{% endfor %}",
	"{% macro m(a) %}\\{{ a|boom }}{% endmacro %}{{ m(x) }}",
	"{% for i in xs %}{% for j in xs %}{{ j|boom }}{% endfor %}{% endfor %}",
	"{% block b %}{% block c %}{{ boomfn(x) }}{% endblock %}{% endblock %}",
	"{{ x|boom is boomt }}",
	"{% include 'inc' only %}",
	// the result of a macro call used as a value (concatenated, compared, filtered, assigned, collected)
	"{% macro m(a) %}{{ a|boom }}{% endmacro %}{{ 'p' ~ m(x) ~ 'q' }}",
	"{% import 'lib' as l %}<{{ l.m(x) ~ '!' }}>",
	"{% from 'lib' import m %}{% if m(x) == '(v)' %}y{% else %}n{% endif %}",
	"{% macro m(a) %}{{ boomfn(a) }}{% endmacro %}{% set s = m(x) %}[{{ s }}]",
	"{% macro m(a) %}{{ a|boom }}{% endmacro %}{{ [m(x), 'k']|join('-') }}",
	"{% macro m(a) %}{{ a|boom }}{% endmacro %}{{ _self.m(x)|upper }}",
	"{% import 'lib' as l %}{{ {'k': l.m(x)}|length }}",
	"{% macro m(a) %}{{ a|boom }}{% endmacro %}{% for c in [m(x)] %}{{ c }}{% endfor %}",
	"{% macro m(a) %}inc{% endmacro %}{% include m(boomfn(x)) ignore missing %}",
	// relative names inside loader-served templates in a directory; the loader also has templates under
	// the names as written ('./part', 'part'): a failure of the resolved template must not be papered
	// over by rendering one of those
	// operands of `is defined`: an undefined name or attribute is tolerated there, a failing callback is not
	"{% if xs[boomfn(0)] is defined %}y{% else %}n{% endif %}",
	"{% if (xs|boom)[0] is defined %}y{% else %}n{% endif %}",
	"{% if xs[0|boom] is not defined %}n{% else %}y{% endif %}",
	"{{ (x|boom) is defined }}",
	"{{ boomfn(x) is defined ? 'y' : 'n' }}",
	"{% include 'dir/page' %}",
	"{% include 'dir/ext' %}",
	"{% include 'dir/imp' %}",
}

// templates whose names cannot be resolved: the render must fail, with empty output
var vhC17Unresolved = []string{
	"a{{ x|nosuchfilter }}b",
	"a{{ nosuchfunction(x) }}b",
	"a{% if x is nosuchtest %}y{% endif %}b",
	"a{% include 'nosuchtemplate' %}b",
	"a{% extends 'nosuchtemplate' %}",
	"a{% import 'nosuchtemplate' as l %}b",
	"a{% from 'nosuchtemplate' import m %}b",
	"a{% import 'lib' as l %}{{ l.nosuchmacro(x) }}b",
	"a{{ x|upper|nosuchfilter|lower }}b",
	"a{% for i in xs %}{{ i|nosuchfilter }}{% endfor %}b",
	"a{% apply nosuchfilter %}q{% endapply %}b",
	"a{% spaceless %}<b>{{ nosuchfunction() }}</b>{% endspaceless %}b",
	"a{% block q %}{{ x|nosuchfilter }}{% endblock %}b",
	// `ignore missing` only forgives that the named template itself is missing
	"a{% include 'wraps-missing-include' ignore missing %}b",
	"a{% include 'wraps-missing-extends' ignore missing %}b",
	"a{% include 'wraps-missing-import' ignore missing %}b",
	"a{% include 'wraps-missing-from' ignore missing %}b",
	"a{% include 'wraps-wraps' ignore missing %}b",
	"a{% include 'wraps-badfilter' ignore missing %}b",
	"a{% include 'wraps-missing-include' ignore missing with {'q': 1} only %}b",
}

func vhC17Engine(tick func() bool, debug bool) *Engine {
	e := New()
	e.SetDebug(debug)
	e.AddFilter("boom", func(v interface{}, a ...interface{}) (interface{}, error) {
		if tick() {
			return nil, vhSentinel
		}
		return v, nil
	})
	e.AddFunction("boomfn", func(a ...interface{}) (interface{}, error) {
		if tick() {
			return nil, vhSentinel
		}
		if len(a) > 0 {
			return a[0], nil
		}
		return nil, nil
	})
	e.AddTest("boomt", func(v interface{}, a ...interface{}) (bool, error) {
		if tick() {
			return false, vhSentinel
		}
		return true, nil
	})
	e.RegisterString("inc", "[{{ x|boom }}]")
	e.RegisterString("base", "<{% block b %}d{% endblock %}>")
	e.RegisterString("basefault", "<{% block b %}{{ x|boom }}{% endblock %}>")
	e.RegisterString("lib", "{% macro m(p) %}({{ p|boom }}){% endmacro %}")
	e.RegisterString("wraps-missing-include", "[p{% include 'nosuchtemplate' %}q]")
	e.RegisterString("wraps-missing-extends", "{% extends 'nosuchtemplate' %}")
	e.RegisterString("wraps-missing-import", "[{% import 'nosuchtemplate' as l %}]")
	e.RegisterString("wraps-missing-from", "[{% from 'nosuchtemplate' import m %}]")
	e.RegisterString("wraps-wraps", "<{% include 'wraps-missing-include' %}>")
	e.RegisterString("wraps-badfilter", "[{{ x|nosuchfilter }}]")
	e.RegisterLoader(&vhFaultLoader{tick: tick, tpl: map[string]string{
		"L1": "l1{{ x }}", "L2": "<{% block b %}d{% endblock %}>", "L3": "{% macro m(p) %}({{ p }}){% endmacro %}",
		"dir/page": "[{% include './part' %}]", "dir/part": "P{{ x }}", "./part": "WRONG", "part": "WRONG2",
		"dir/ext": "{% extends './lay' %}{% block b %}c{% endblock %}", "dir/lay": "<{% block b %}d{% endblock %}>", "./lay": "WRONGLAY", "lay": "WRONGLAY2",
		"dir/imp": "{% import './lib' as l %}{{ l.m(x) }}", "dir/lib": "{% macro m(p) %}({{ p }}){% endmacro %}", "./lib": "{% macro m(p) %}WRONG{% endmacro %}"}})
	return e
}

// VH_C17_Fault: exactly one invocation (the k-th, k symbolic, possibly none) fails.
func VH_C17_Fault() {
	t := symParam("T", -1)
	if t < 0 {
		t = symChoice(len(vhC17Tpl))
	}
	symTag("tpl:" + vhC17Tpl[t])
	k := symInt()
	symAssume(k >= 0 && k <= 8)
	debug := symBool()
	calls := 0
	failed := false
	tick := func() bool {
		calls++
		if calls == k {
			failed = true
			return true
		}
		return false
	}
	e := vhC17Engine(tick, debug)
	if err := e.RegisterString("t", vhC17Tpl[t]); err != nil {
		symAssert(false, "corpus-template-parses")
		return
	}
	out, err := e.Render("t", map[string]interface{}{"x": "v", "xs": []interface{}{"a", "b"}})
	symCover("rendered")
	if failed {
		symCover("fault-fired")
		symAssert(err != nil, "failure-surfaces-as-error")
		symAssert(out == "", "no-output-with-error")
		if err != nil {
			symAssert(errors.Is(err, vhSentinel), "cause-reachable-with-errors-Is")
		}
	} else {
		symCover("no-fault")
		symAssert(err == nil, "no-spurious-error")
	}
}

// VH_C17_Unresolved: a filter, function, test, macro or template name that cannot be resolved fails
// the render: non-nil error, empty output.
func VH_C17_Unresolved() {
	t := symChoice(len(vhC17Unresolved))
	symTag("tpl:" + vhC17Unresolved[t])
	debug := symBool()
	e := vhC17Engine(func() bool { return false }, debug)
	if err := e.RegisterString("t", vhC17Unresolved[t]); err != nil {
		// rejecting the template at registration is also "surfacing"
		symCover("rejected-at-parse")
		return
	}
	out, err := e.Render("t", map[string]interface{}{"x": "v", "xs": []interface{}{"a", "b"}})
	symCover("rendered")
	symAssert(err != nil, "unresolved-name-is-an-error")
	symAssert(out == "", "no-output-with-error")
	if ((t >= 3 && t <= 6) || (t >= 13 && t <= 17) || t == 19) && err != nil {
		symAssert(errors.Is(err, ErrTemplateNotFound), "missing-template-matches-ErrTemplateNotFound")
	}
}

// ---- C17.reload: loader failures when a cached template is re-read --------------------------------

type vhFaultTSLoader struct {
	vhFaultLoader
	ts map[string]int64
}

func (l *vhFaultTSLoader) GetModifiedTime(name string) (int64, error) {
	if _, ok := l.tpl[name]; !ok {
		return 0, ErrTemplateNotFound
	}
	return l.ts[name], nil
}

var vhC17Reload = []struct{ main, want string }{
	{"L1", "l1v"},
	{"{% include 'L1' %}", "l1v"},
	{"{% extends 'L2' %}{% block b %}c{% endblock %}", "<c>"},
	{"{% import 'L3' as l %}{{ l.m(x) }}", "(v)"},
	{"{% for i in [1, 2] %}{% include 'L1' %}{% endfor %}", "l1vl1v"},
}

// VH_C17_Reload: an engine with auto-reload renders the same template R times; before each render
// the loader's timestamps may move forward (so the cached copy is re-read), and the k-th read of the
// loader fails with a non-"not found" cause. The render during which the read failed returns that
// cause and no output, whatever is cached from earlier renders; the others succeed.
func VH_C17_Reload() {
	r := symParam("R", 3)
	t := symChoice(len(vhC17Reload))
	symTag("tpl:" + vhC17Reload[t].main)
	k := symInt()
	symAssume(k >= 0 && k <= 6)
	calls := 0
	failedNow := false
	ld := &vhFaultTSLoader{ts: map[string]int64{"L1": 10, "L2": 10, "L3": 10}}
	ld.tpl = map[string]string{"L1": "l1{{ x }}", "L2": "<{% block b %}d{% endblock %}>", "L3": "{% macro m(p) %}({{ p }}){% endmacro %}"}
	ld.tick = func() bool {
		calls++
		if calls == k {
			failedNow = true
			return true
		}
		return false
	}
	e := New()
	e.SetAutoReload(true)
	e.RegisterLoader(ld)
	name := vhC17Reload[t].main
	if t > 0 {
		if e.RegisterString("t", name) != nil {
			symAssert(false, "corpus-template-parses")
			return
		}
		name = "t"
	}
	hist := ""
	for i := 0; i < r; i++ {
		if i > 0 && symBool() {
			for n := range ld.ts {
				ld.ts[n] += 5
			}
			hist += "T"
		}
		failedNow = false
		out, err := e.Render(name, map[string]interface{}{"x": "v"})
		if failedNow {
			hist += "F"
			symCover("fault-fired")
			symAssert(err != nil, "failure-surfaces-as-error")
			symAssert(out == "", "no-output-with-error")
			if err != nil {
				symAssert(errors.Is(err, vhSentinel), "cause-reachable-with-errors-Is")
			}
		} else {
			hist += "r"
			symAssert(err == nil && out == vhC17Reload[t].want, "no-spurious-error")
		}
	}
	symTag("hist:" + hist)
	symCover("rendered")
}
