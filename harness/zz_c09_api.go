package twig

import "strconv"

// C09: if, for and set have their defined control-flow meaning. Public API only.

// vhC09Val: a symbolic value of one of the types of the truth table, with its truthiness.
func vhC09Val() (interface{}, bool, string) {
	switch symChoice(11) {
	case 9:
		i := []int64{0, 1, -9223372036854775808}[symChoice(3)]
		return i, i != 0, "int64"
	case 10:
		u := []uint8{0, 255}[symChoice(2)]
		return u, u != 0, "uint8"
	case 0:
		b := symBool()
		return b, b, "bool"
	case 1:
		i := symInt()
		return i, i != 0, "int"
	case 2:
		s := symStringIn(symChoice(3), "a0 \x00")
		return s, s != "", "string"
	case 3:
		return nil, false, "nil"
	case 4:
		n := symChoice(3)
		xs := make([]interface{}, n)
		for i := range xs {
			xs[i] = 0
		}
		return xs, n > 0, "list"
	case 5:
		m := map[string]interface{}{}
		if symBool() {
			m["k"] = false
		}
		return m, len(m) > 0, "map"
	case 6:
		f := []float64{0, 0.5, -1.5}[symChoice(3)]
		return f, f != 0, "float"
	case 7:
		n := symChoice(2)
		return make([]string, n), n > 0, "typed-slice"
	default:
		m := map[string]int{}
		if symBool() {
			m["k"] = 0
		}
		return m, len(m) > 0, "typed-map"
	}
}

// VH_C09_Truth: an if/elseif/else chain renders exactly one branch: the first truthy one.
func VH_C09_Truth() {
	v, tv, kv := vhC09Val()
	var w interface{}
	tw, kw := false, "none"
	switch symChoice(4) { // the second condition: fewer types (every type is covered as first condition)
	case 0:
		b := symBool()
		w, tw, kw = b, b, "bool"
	case 1:
		i := symInt()
		w, tw, kw = i, i != 0, "int"
	case 2:
		s := symStringIn(symChoice(2), "a0")
		w, tw, kw = s, s != "", "string"
	case 3:
		w, tw, kw = nil, false, "nil"
	}
	symTag("types:" + kv + "," + kw)
	shape := symChoice(4)
	// the body of each branch: marker text, nothing at all, a comment only, or only a set
	bodyOf := func(mark string) (string, string) {
		switch symChoice(4) {
		case 0:
			return mark, mark
		case 1:
			return "", ""
		case 2:
			return "{# c #}", ""
		default:
			return "{% set q = 1 %}", ""
		}
	}
	bT, oT := bodyOf("T")
	bE, oE := "E", "E"
	bF, oF := bodyOf("F")
	src := []string{
		"{% if v %}" + bT + "{% endif %}",
		"{% if v %}" + bT + "{% else %}" + bF + "{% endif %}",
		"{% if v %}" + bT + "{% elseif w %}" + bE + "{% endif %}",
		"{% if v %}" + bT + "{% elseif w %}" + bE + "{% else %}" + bF + "{% endif %}",
	}[shape]
	want := ""
	switch {
	case tv:
		want = oT
	case shape >= 2 && tw:
		want = oE
	case shape == 1 || shape == 3:
		want = oF
	}
	out, err := vhR("["+src+"]", map[string]interface{}{"v": v, "w": w})
	symCover("rendered")
	symAssert(err == nil, "no-error")
	symAssert(out == "["+want+"]", "exactly-the-first-truthy-branch")
}

func vhB(b bool) string {
	if b {
		return "true"
	}
	return "false"
}

const vhC09Body = "{{ k }}:{{ x }}:{{ loop.index }}:{{ loop.index0 }}:{{ loop.revindex }}:{{ loop.revindex0 }}:{{ loop.first }}:{{ loop.last }}:{{ loop.length }};"

func vhC09Want(keys, vals []string) string {
	n := len(vals)
	if n == 0 {
		return "E"
	}
	out := ""
	for i := range vals {
		out += keys[i] + ":" + vals[i] + ":" + strconv.Itoa(i+1) + ":" + strconv.Itoa(i) + ":" + strconv.Itoa(n-i) + ":" + strconv.Itoa(n-i-1) + ":" + vhB(i == 0) + ":" + vhB(i == n-1) + ":" + strconv.Itoa(n) + ";"
	}
	return out
}

// VH_C09_Loop: a for loop renders its body once per element in order with consistent loop.*,
// and its else branch exactly when there is nothing to iterate.
func VH_C09_Loop() {
	n := symChoice(symParam("N", 4) + 1)
	kind := symChoice(5)
	keys := make([]string, n)
	vals := make([]string, n)
	var seq interface{}
	switch kind {
	case 0:
		symTag("list")
		xs := make([]interface{}, n)
		for i := range xs {
			vals[i] = symStringIn(1, "ab0")
			xs[i] = vals[i]
			keys[i] = strconv.Itoa(i)
		}
		seq = xs
	case 1:
		symTag("typed-slice")
		xs := make([]string, n)
		for i := range xs {
			vals[i] = symStringIn(1, "ab0")
			xs[i] = vals[i]
			keys[i] = strconv.Itoa(i)
		}
		seq = xs
	case 2:
		symTag("ascii-string")
		s := ""
		for i := 0; i < n; i++ {
			vals[i] = symStringIn(1, "ab0")
			s += vals[i]
			keys[i] = strconv.Itoa(i)
		}
		seq = s
	case 3:
		symTag("multibyte-string")
		// every sequence of n characters from: 2-, 3- and 4-byte letters, the replacement character
		// U+FFFD (validly encoded), a combining mark, an ASCII letter
		pool := []string{"\xc3\xa9", "\xf0\x9d\x84\x9e", "\xce\xbb", "\xef\xbf\xbd", "\xcc\x81", "z"}
		str := ""
		for i := 0; i < n; i++ {
			vals[i] = pool[symChoice(len(pool))]
			keys[i] = strconv.Itoa(i)
			str += vals[i]
		}
		seq = str
	case 4:
		symTag("int-slice")
		xs := make([]int, n)
		for i := range xs {
			xs[i] = i * 7
			vals[i] = strconv.Itoa(i * 7)
			keys[i] = strconv.Itoa(i)
		}
		seq = xs
	}
	out, err := vhR("{% for k, x in seq %}"+vhC09Body+"{% else %}E{% endfor %}|{% for x in seq %}{{ x }}{% endfor %}", map[string]interface{}{"seq": seq})
	symCover("rendered")
	symAssert(err == nil, "no-error")
	symAssert(out == vhC09Want(keys, vals)+"|"+vhJoin(vals, ""), "loop-positions")
}

// VH_C09_Nested: nested loops keep their own counters; after the inner loop the outer loop's
// variables are what they were.
func VH_C09_Nested() {
	n, m := symChoice(3), symChoice(3)
	xs, ys := make([]interface{}, n), make([]interface{}, m)
	for i := range xs {
		xs[i] = "x" + strconv.Itoa(i)
	}
	for j := range ys {
		ys[j] = "y" + strconv.Itoa(j)
	}
	out, err := vhR("{% for x in xs %}<{{ loop.index }}/{{ loop.length }}{% for y in ys %}({{ loop.index }}/{{ loop.length }}{{ x }}{{ y }}){% else %}e{% endfor %}{{ loop.index }}/{{ loop.length }}{{ loop.last }}>{% else %}E{% endfor %}",
		map[string]interface{}{"xs": xs, "ys": ys})
	symCover("rendered")
	symAssert(err == nil, "no-error")
	want := ""
	for i := 0; i < n; i++ {
		want += "<" + strconv.Itoa(i+1) + "/" + strconv.Itoa(n)
		if m == 0 {
			want += "e"
		}
		for j := 0; j < m; j++ {
			want += "(" + strconv.Itoa(j+1) + "/" + strconv.Itoa(m) + "x" + strconv.Itoa(i) + "y" + strconv.Itoa(j) + ")"
		}
		want += strconv.Itoa(i+1) + "/" + strconv.Itoa(n) + vhB(i == n-1) + ">"
	}
	if n == 0 {
		want = "E"
	}
	symAssert(out == want, "nested-loops-keep-their-own-counters")
}

// VH_C09_Range: a for loop over range(a, b, c): elements a, a+c, ... up to and including b.
func VH_C09_Range() {
	a, c := symInt(), symInt()
	symAssume(a >= -3 && a <= 3)
	symAssume(c >= -2 && c <= 2 && c != 0)
	cnt := symChoice(4) // number of elements 0..3
	var b int
	if cnt == 0 {
		b = a - c // wrong direction: nothing to iterate
	} else {
		b = a + (cnt-1)*c
		if symBool() && (c == 2 || c == -2) {
			b += c / 2 // end not hit exactly
		}
	}
	out, err := vhR("{% for i in range(a, b, c) %}{{ i }},{% else %}E{% endfor %}", map[string]interface{}{"a": a, "b": b, "c": c})
	symCover("rendered")
	symAssert(err == nil, "no-error")
	want := ""
	for i := 0; i < cnt; i++ {
		want += strconv.Itoa(a+i*c) + ","
	}
	if cnt == 0 {
		want = "E"
	}
	symAssert(out == want, "range-elements")
}

// VH_C09_Set: a set is visible to everything rendered after it in the same template.
func VH_C09_Set() {
	v := symStringIn(1, vhValAlphabet)
	name := []string{"a", "b", "item", "loop2"}[symChoice(4)]
	src := "[{{ N }}]{% set N = v %}[{{ N }}]{% set other = N ~ '!' %}[{{ other }}]" +
		"{% for i in [1, 2] %}{% set N = N ~ i %}({{ N }}){% endfor %}[{{ N }}]" +
		"{% if true %}{% set N = 'in-if' %}{% endif %}[{{ N }}]{% do 1 %}{% set N = 7 %}[{{ N }}]"
	out, err := vhR(vhReplace(src, "N", name), map[string]interface{}{"v": v})
	symCover("rendered")
	symAssert(err == nil, "no-error")
	symAssert(out == "[]["+v+"]["+v+"!]("+v+"1)("+v+"12)["+v+"12][in-if][7]", "set-visible-afterwards")
}

// ---- C09.recursive: a loop that is re-entered while it runs keeps its own counters -------------------

type vhC09Node struct {
	name string
	kids []vhC09Node
}

func vhC09Tree(n vhC09Node) map[string]interface{} {
	ks := []interface{}{}
	for _, k := range n.kids {
		ks = append(ks, vhC09Tree(k))
	}
	return map[string]interface{}{"name": n.name, "kids": ks}
}

// reference: "<index/length name (children) after:index last?>" per element
func vhC09RefTree(kids []vhC09Node) string {
	out := ""
	for i, k := range kids {
		out += "<" + strconv.Itoa(i+1) + "/" + strconv.Itoa(len(kids)) + k.name + "(" + vhC09RefTree(k.kids) + ")" + strconv.Itoa(i+1)
		if i == len(kids)-1 {
			out += "!"
		}
		out += ">"
	}
	return out
}

// VH_C09_Recursive: a tree of depth <= 3 whose branching is symbolic (0..2 children per node), rendered
// by a template that includes itself, by a macro that calls itself, and by a macro that includes a
// template that calls the macro: at every level loop.index / loop.length / loop.last read before and
// after the recursive call belong to that level's loop.
func VH_C09_Recursive() {
	mk := func(name string, depth int) vhC09Node { return vhC09Node{name: name} }
	_ = mk
	var build func(prefix string, depth int) []vhC09Node
	build = func(prefix string, depth int) []vhC09Node {
		n := symChoice(3)
		kids := make([]vhC09Node, n)
		for i := range kids {
			kids[i].name = prefix + string(rune('a'+i))
			if depth > 1 {
				kids[i].kids = build(kids[i].name, depth-1)
			}
		}
		return kids
	}
	roots := build("", symParam("D", 2))
	form := symChoice(3)
	symTag("form:" + []string{"self-include", "self-macro", "macro-include"}[form])
	body := "<{{ loop.index }}/{{ loop.length }}{{ n.name }}(%R){{ loop.index }}{% if loop.last %}!{% endif %}>"
	e := New()
	var main string
	switch form {
	case 0:
		e.RegisterString("tree", "{% for n in kids %}"+vhReplace(body, "%R", "{% include 'tree' with {'kids': n.kids} %}")+"{% endfor %}")
		main = "{% include 'tree' %}"
	case 1:
		main = "{% macro walk(kids) %}{% for n in kids %}" + vhReplace(body, "%R", "{{ _self.walk(n.kids) }}") + "{% endfor %}{% endmacro %}{{ _self.walk(kids) }}"
	case 2:
		e.RegisterString("lib", "{% macro walk(kids) %}{% for n in kids %}"+vhReplace(body, "%R", "{% include 'via' with {'kids': n.kids} %}")+"{% endfor %}{% endmacro %}")
		e.RegisterString("via", "{% import 'lib' as l %}{{ l.walk(kids) }}")
		main = "{% include 'via' %}"
	}
	if e.RegisterString("main", main) != nil {
		symAssert(false, "template-parses")
		return
	}
	ks := []interface{}{}
	for _, k := range roots {
		ks = append(ks, vhC09Tree(k))
	}
	out, err := e.Render("main", map[string]interface{}{"kids": ks})
	symCover("rendered")
	symAssert(err == nil, "renders")
	symAssert(out == vhC09RefTree(roots), "recursive-loops-keep-their-own-counters")
}

// ---- C09.looprefs: loop.* means the enclosing loop wherever it is written ----------------------------

// VH_C09_LoopRefs: the outer loop's counters are read in exactly one place of its body, and that place
// is inside another construct: the else branch of an inner loop over nothing, the sequence expression of
// an inner loop, an if condition, a set, a macro argument, a filter argument, a hash literal, an included
// template. n outer elements (0..3). The value read is the outer loop's.
func VH_C09_LoopRefs() {
	n := symChoice(4)
	xs := make([]interface{}, n)
	for i := range xs {
		xs[i] = "x" + strconv.Itoa(i)
	}
	tpls := []string{
		"{% for x in xs %}{% for y in [] %}y{% else %}({{ loop.index }}/{{ loop.length }}{{ loop.last }}){% endfor %}{% endfor %}",
		"{% for x in xs %}{% for y in range(1, loop.index) %}*{% endfor %};{% endfor %}",
		"{% for x in xs %}{% if loop.first %}F{% elseif loop.last %}L{% else %}M{% endif %}{% endfor %}",
		"{% for x in xs %}{% set i = loop.index0 %}{% for y in [1] %}{{ i }}{% endfor %}{% endfor %}",
		"{% macro show(a, b) %}<{{ a }}|{{ b }}>{% endmacro %}{% for x in xs %}{{ _self.show(loop.index, loop.revindex) }}{% endfor %}",
		"{% for x in xs %}{{ 'abc'|slice(0, loop.index) }};{% endfor %}",
		"{% for x in xs %}{{ {'i': loop.index, 'n': loop.length}['i'] }}{% endfor %}",
		"{% for x in xs %}{% include 'showloop' %}{% endfor %}",
		"{% for x in xs %}{% for y in [] %}{% else %}{% for z in [] %}{% else %}[{{ loop.index }}]{% endfor %}{% endfor %}{% endfor %}",
		"{% for x in xs %}{% for y in [1, 2] %}{% if false %}{{ loop.index }}{% endif %}{% endfor %}({{ loop.index }}){% endfor %}",
	}
	t := symChoice(len(tpls))
	symTag("tpl:" + tpls[t])
	e := New()
	e.RegisterString("showloop", "{{ loop.index }}of{{ loop.length }},")
	if e.RegisterString("t", tpls[t]) != nil {
		symAssert(false, "template-parses")
		return
	}
	out, err := e.Render("t", map[string]interface{}{"xs": xs})
	symCover("rendered")
	symAssert(err == nil, "no-error")
	want := ""
	for i := 0; i < n; i++ {
		one, rev := strconv.Itoa(i+1), strconv.Itoa(n-i)
		switch t {
		case 0:
			want += "(" + one + "/" + strconv.Itoa(n) + vhB(i == n-1) + ")"
		case 1:
			want += vhRepeatStr("*", i+1) + ";"
		case 2:
			switch {
			case i == 0:
				want += "F"
			case i == n-1:
				want += "L"
			default:
				want += "M"
			}
		case 3:
			want += strconv.Itoa(i)
		case 4:
			want += "<" + one + "|" + rev + ">"
		case 5:
			want += "abc"[:i+1] + ";"
		case 6:
			want += one
		case 7:
			want += one + "of" + strconv.Itoa(n) + ","
		case 8:
			want += "[" + one + "]"
		case 9:
			want += "(" + one + ")"
		}
	}
	symAssert(out == want, "loop-refers-to-the-enclosing-loop")
}

// ---- C09.literals: a string literal written in a block tag is the value it spells -----------------------
// VH_C09_Literals: a literal of up to N characters over {a, SP, TAB, LF} (runs of blanks included)
// is assigned, compared and iterated in block tags; the result equals the same value taken from the
// context.
func VH_C09_Literals() {
	n := 1 + symChoice(symParam("N", 3))
	lit := symStringIn(n, "a \t\n")
	ctx := map[string]interface{}{"v": lit}
	src := []string{
		"{% set s = 'L' %}[{{ s }}]",
		"{% if v == 'L' %}T{% else %}F{% endif %}",
		"{% for c in 'L' %}{{ loop.index }}:{{ loop.revindex }}:{{ c }},{% endfor %}",
		"{% if 'L' == v %}T{% elseif v %}E{% else %}F{% endif %}",
		"{% set s = \"L\" ~ '|' %}[{{ s }}]",
	}
	k := symChoice(len(src))
	out, err := vhR(vhReplace(src[k], "L", lit), ctx)
	ref, rerr := vhR(vhReplace(vhReplace(src[k], "'L'", "v"), "\"L\"", "v"), ctx)
	symCover("rendered")
	symAssert(err == nil && rerr == nil, "renders")
	symAssert(out == ref, "literal-in-block-tag-is-its-value")
}
