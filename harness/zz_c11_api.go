package twig

import "errors"

// C11: include renders in the right scope and never changes the includer's state. Public API only.

// the included template: shows what it sees, then sets, loops, defines a block and a macro
const vhC11Inc = "[a={{ a }};b={{ b }};w={{ w }};s={{ s }}]{% set a = 'A!' %}{% set s = 'S!' %}{% set fresh = 'F!' %}{% for b in [1, 2] %}{% endfor %}{% macro mm() %}M{% endmacro %}{% block blk %}K{% endblock %}"

// probe printed by the includer before and after the include
const vhC11Probe = "<a={{ a }};b={{ b }};w={{ w }};s={{ s }};fresh={{ fresh }};mm={% if mm is defined %}D{% endif %}>"

var vhC11Opts = []struct {
	src        string
	with, only bool
	ignore     bool
}{
	{"{% include NAME %}", false, false, false},
	{"{% include NAME only %}", false, true, false},
	{"{% include NAME with {'w': wv} %}", true, false, false},
	{"{% include NAME with {'w': wv} only %}", true, true, false},
	{"{% include NAME ignore missing %}", false, false, true},
	{"{% include NAME ignore missing with {'w': wv} %}", true, false, true},
	{"{% include NAME ignore missing with {'w': wv} only %}", true, true, true},
	{"{% include NAME with {'w': wv, 'a': 'over'} %}", true, false, false},
	// with-expressions that mention names the same clause binds: each is evaluated in the includer's scope
	{"{% include NAME with {'a': wv, 'w': a} %}", true, false, false},
	{"{% include NAME with {'w': a, 'a': wv} only %}", true, true, false},
	{"{% include NAME with {'a': a ~ '1', 'w': a ~ '2', 'b': a ~ '3'} %}", true, false, false},
	// a with-value that is null / undefined / a missing attribute still hides the includer's variable
	{"{% include NAME with {'a': null, 'w': wv} %}", true, false, false},
	{"{% include NAME with {'w': wv, 'a': nosuchvar, 'b': a.nosuchattr} %}", true, false, false},
	{"{% include NAME with {'a': null, 'w': wv} only %}", true, true, false},
	// sandboxed includes (the engine has a policy that allows everything the included template uses)
	{"{% include NAME sandboxed %}", false, false, false},
	{"{% include NAME with {'w': wv} sandboxed %}", true, false, false},
	{"{% include NAME with {'w': wv} only sandboxed %}", true, true, false},
	{"{% include NAME ignore missing sandboxed %}", false, false, true},
}

// a policy that allows everything
type vhAllowAll struct{}

func (vhAllowAll) IsFunctionAllowed(string) bool { return true }
func (vhAllowAll) IsFilterAllowed(string) bool   { return true }
func (vhAllowAll) IsTagAllowed(string) bool      { return true }

var _ SecurityPolicy = vhAllowAll{}

var vhC11Sites = []string{
	"%I",
	"{% for q in [1] %}%I{% endfor %}",
	"{% block outer %}%I{% endblock %}",
	"{% if true %}%I{% endif %}",
	"{% macro site() %}%I{% endmacro %}{{ site() }}",
}

func vhReplace(s, old, new string) string {
	out := ""
	for i := 0; i < len(s); {
		if i+len(old) <= len(s) && s[i:i+len(old)] == old {
			out += new
			i += len(old)
		} else {
			out += s[i : i+1]
			i++
		}
	}
	return out
}

// VH_C11_Include: every option combination x call site x static/computed name x existing/missing
// template, symbolic variable values of includer and with-clause.
func VH_C11_Include() {
	o := symChoice(len(vhC11Opts))
	site := symChoice(len(vhC11Sites))
	missing := symBool()
	computed := symBool()
	av := symStringIn(1, vhValAlphabet)
	hasB := symBool()
	wv := symStringIn(1, vhValAlphabet)
	opt := vhC11Opts[o]
	name := "'inc'"
	if missing {
		name = "'nosuch'"
	}
	if computed {
		name = "tn"
	}
	inc := vhReplace(opt.src, "NAME", name)
	if site == 4 {
		symTag("site:macro")
	}
	main := vhC11Probe + vhReplace(vhC11Sites[site], "%I", inc) + vhC11Probe
	e := New()
	if o >= 14 {
		e.EnableSandbox(vhAllowAll{})
	}
	e.RegisterString("inc", vhC11Inc)
	if err := e.RegisterString("main", main); err != nil {
		symAssert(false, "template-parses")
		return
	}
	ctx := map[string]interface{}{"a": av, "wv": wv, "tn": "inc"}
	if missing {
		ctx["tn"] = "nosuch"
	}
	bv := ""
	if hasB {
		bv = "B"
		ctx["b"] = "B"
	}
	out, err := e.Render("main", ctx)
	symCover("rendered")
	probe := "<a=" + av + ";b=" + bv + ";w=;s=;fresh=;mm=>"
	if site == 4 {
		// inside a macro the includer's variables are not visible at all (macro scope); only the
		// non-interference part is checked there
		if missing && !opt.ignore {
			symAssert(err != nil && errors.Is(err, ErrTemplateNotFound), "missing-template-reported")
			return
		}
		symAssert(err == nil, "renders")
		symAssert(len(out) >= 2*len(probe) && out[:len(probe)] == probe && out[len(out)-len(probe):] == probe, "includer-state-unchanged")
		return
	}
	if missing {
		if opt.ignore {
			symAssert(err == nil, "ignore-missing-no-error")
			symAssert(out == probe+probe, "ignore-missing-empty-output")
		} else {
			symAssert(err != nil && errors.Is(err, ErrTemplateNotFound), "missing-template-reported")
			symAssert(out == "", "no-output-with-error")
		}
		return
	}
	symAssert(err == nil, "renders")
	// what the included template must see
	sa, sb, sw := av, bv, ""
	if opt.only {
		sa, sb = "", ""
	}
	if opt.with {
		sw = wv
		switch o {
		case 7:
			sa = "over"
		case 8, 9:
			sa, sw = wv, av
		case 10:
			sa, sw, sb = av+"1", av+"2", av+"3"
		case 11, 13:
			sa = ""
		case 12:
			sa, sb = "", ""
		}
	}
	want := probe + "[a=" + sa + ";b=" + sb + ";w=" + sw + ";s=]K" + probe
	symAssert(len(out) >= len(probe) && out[len(out)-len(probe):] == probe, "includer-state-unchanged")
	symAssert(out == want, "included-scope")
}

// VH_C11_Depth: nested includes three deep, each level adding a with-variable and setting variables;
// every level sees its ancestors' variables and with-variables, none sees a descendant's.
func VH_C11_Depth() {
	av := symStringIn(1, vhValAlphabet)
	only2 := symBool()
	e := New()
	l2opt := ""
	if only2 {
		l2opt = " only"
	}
	// either level may be a sandboxed include (policy allows everything): scopes are the same
	l1opt := ""
	if symBool() {
		e.EnableSandbox(vhAllowAll{})
		if symBool() {
			l1opt = " sandboxed"
			symTag("l1-sandboxed")
		}
		if symBool() {
			l2opt += " sandboxed"
			symTag("l2-sandboxed")
		}
	}
	e.RegisterString("l1", "1(a={{ a }},x1={{ x1 }},x2={{ x2 }}){% set a = 'a1' %}{% set z1 = 1 %}{% include 'l2' with {'x2': 'X2'}"+l2opt+" %}1(a={{ a }},x2={{ x2 }},z2={{ z2 }})")
	e.RegisterString("l2", "2(a={{ a }},x1={{ x1 }},x2={{ x2 }},z1={{ z1 }},g={{ g }}){% set a = 'a2' %}{% set z2 = 2 %}{% set g = 'g2' %}")
	e.RegisterString("main", "0(a={{ a }}){% include 'l1' with {'x1': 'X1'}"+l1opt+" %}0(a={{ a }},x1={{ x1 }},x2={{ x2 }},z1={{ z1 }},z2={{ z2 }})")
	out, err := e.Render("main", map[string]interface{}{"a": av, "g": "G"})
	symCover("rendered")
	symAssert(err == nil, "renders")
	// g is set only at the top: every level below sees it through its ancestors (unless `only`)
	l2 := "2(a=a1,x1=X1,x2=X2,z1=1,g=G)"
	if only2 {
		l2 = "2(a=,x1=,x2=X2,z1=,g=)"
	}
	want := "0(a=" + av + ")1(a=" + av + ",x1=X1,x2=)" + l2 + "1(a=a1,x2=,z2=)0(a=" + av + ",x1=,x2=,z1=,z2=)"
	symAssert(out == want, "nested-include-scopes")
}

// VH_C11_IncludeExtends: including a template that itself extends a layout renders exactly what that
// template renders on its own, and does not disturb a block of the same name in the includer.
func VH_C11_IncludeExtends() {
	v := symStringIn(1, vhValAlphabet)
	opt := []string{"", " only", " with {'x': x}", " with {'x': x} only"}[symChoice(4)]
	inBlock := symBool()
	e := New()
	e.RegisterString("layout", "[{% block b %}d{% endblock %}|{% block c %}c{{ x }}{% endblock %}]")
	e.RegisterString("child", "{% extends 'layout' %}{% block b %}B{{ x }}{% endblock %}")
	main := "<{% include 'child'" + opt + " %}>"
	if inBlock {
		main = "{% block b %}mine{% endblock %}" + main + "{% block c %}myc{% endblock %}"
	}
	if err := e.RegisterString("main", main); err != nil {
		symAssert(false, "template-parses")
		return
	}
	ctx := map[string]interface{}{"x": v}
	alone, aerr := e.Render("child", ctx)
	out, err := e.Render("main", ctx)
	symCover("rendered")
	symAssert(aerr == nil && err == nil, "renders")
	want := "<" + alone + ">"
	if opt == " only" {
		want = "<[B|c]>"
	}
	if inBlock {
		want = "mine" + want + "myc"
	}
	symAssert(out == want, "included-extending-template")
}

// VH_C11_IgnoreMissingScope: `ignore missing` forgives exactly one thing: that the template named by
// this include does not exist. A template that exists but fails inside (a nested include / extends /
// import of a missing template, an unknown filter) is reported, at every depth.
func VH_C11_IgnoreMissingScope() {
	inner := []string{
		"[p{% include 'nosuch' %}q]",
		"[p{% include 'nosuch' ignore missing %}q]",
		"{% extends 'nosuch' %}",
		"[{% import 'nosuch' as l %}]",
		"[{% from 'nosuch' import m %}]",
		"<{% include 'deeper' %}>",
		"<{% include 'deeper' ignore missing %}>",
		"[{{ x|nosuchfilter }}]",
		"[fine{{ x }}]",
	}
	k := symChoice(len(inner))
	opt := []string{" ignore missing", " ignore missing only", " ignore missing with {'x': x}", ""}[symChoice(4)]
	x := symStringIn(1, vhValAlphabet)
	e := New()
	e.RegisterString("deeper", "(d{% include 'nosuch' %})")
	e.RegisterString("target", inner[k])
	if e.RegisterString("main", "A{% include 'target'"+opt+" %}B") != nil {
		symAssert(false, "template-parses")
		return
	}
	out, err := e.Render("main", map[string]interface{}{"x": x})
	symCover("rendered")
	switch k {
	case 1:
		symAssert(err == nil && out == "A[pq]B", "inner-ignore-missing-honoured")
	case 8:
		want := "A[fine" + x + "]B"
		if opt == " ignore missing only" {
			want = "A[fine]B"
		}
		symAssert(err == nil && out == want, "existing-template-rendered")
	case 7:
		symAssert(err != nil && out == "", "failure-inside-existing-template-reported")
	default:
		symAssert(err != nil && out == "", "failure-inside-existing-template-reported")
		if err != nil {
			symAssert(errors.Is(err, ErrTemplateNotFound), "missing-template-reported")
		}
	}
}

// ---- C11.leak: nothing an included template writes reaches the includer, wherever it writes it ---------

var vhC11Writers = []string{
	"{% set v = 'L' %}",
	"{% if c %}{% set v = 'L' %}{% endif %}",
	"{% if not c %}n{% else %}{% set v = 'L' %}{% endif %}",
	"{% if not c %}n{% elseif c %}{% set v = 'L' %}{% endif %}",
	"{% for i in [1] %}{% set v = 'L' %}{% endfor %}",
	"{% for i in [] %}{% else %}{% set v = 'L' %}{% endfor %}",
	"{% for i in xs %}x{% else %}{% set v = 'L' %}{% endfor %}",
	"{% for i in xs %}{% for i in [] %}{% else %}{% set v = 'L' %}{% endfor %}{% else %}{% set v = 'M' %}{% endfor %}",
	"{% block b %}{% set v = 'L' %}{% endblock %}",
	"{% apply upper %}{% set v = 'L' %}{% endapply %}",
	"{% spaceless %}{% set v = 'L' %}{% endspaceless %}",
	"{% include 'setter' %}",
	"{% macro mm() %}M{% endmacro %}",
	"{% for i in [] %}{% else %}{% import 'lib' as mm %}{% endfor %}",
	"{% if c %}{% from 'lib' import m as mm %}{% endif %}",
	"{% for i in xs %}{% else %}{% macro mm() %}M{% endmacro %}{% endfor %}",
	"{% for i in [1, 2] %}{{ i }}{% endfor %}",
	"{% for i, v in {'k': 1} %}{{ i }}{% endfor %}",
}

// VH_C11_Leak: an included template whose only write (set, loop variable, macro definition, import,
// from-import) stands in one particular place (top level, if / else / elseif arm, for body, for-else
// of an empty or non-empty loop, block, apply, spaceless, nested include); included plainly, in a loop,
// with ignore missing, with an unrelated with-clause. The includer's probe reads the same after as before.
func VH_C11_Leak() {
	w := symChoice(len(vhC11Writers))
	symTag("writer:" + vhC11Writers[w])
	form := []string{"{% include 'part' %}", "{% for q in [1, 2] %}{% include 'part' %}{% endfor %}", "{% include 'part' ignore missing %}", "{% include 'part' with {'other': 1} %}", "{% if c %}{% include 'part' %}{% endif %}"}[symChoice(5)]
	nx := symChoice(2)
	xs := make([]interface{}, nx)
	for i := range xs {
		xs[i] = "e"
	}
	probe := "<v={{ v }};i={{ i }};mm={% if mm is defined %}D{% endif %};l={% if loop is defined %}D{% endif %}>"
	e := New()
	e.RegisterString("lib", "{% macro m() %}M{% endmacro %}")
	e.RegisterString("setter", "{% set v = 'S' %}")
	e.RegisterString("part", vhC11Writers[w])
	if e.RegisterString("main", probe+"|"+form+"|"+probe) != nil {
		symAssert(false, "template-parses")
		return
	}
	v := symStringIn(1, "ab")
	out, err := e.Render("main", map[string]interface{}{"v": v, "c": true, "xs": xs})
	symCover("rendered")
	symAssert(err == nil, "renders")
	p := "<v=" + v + ";i=;mm=;l=>"
	symAssert(len(out) >= 2*len(p) && out[:len(p)] == p && out[len(out)-len(p):] == p, "includer-state-unchanged")
}
