package twig

import (
	"errors"
	"strconv"
)

var vhN = 8

func vhTokenize(s string, opt bool) ([]Token, error) {
	t := GetTokenizer(s, 0)
	var ts []Token
	var err error
	if opt {
		ts, err = t.TokenizeOptimized()
	} else {
		ts, err = t.TokenizeHtmlPreserving()
	}
	if err == nil {
		t.ApplyWhitespaceControl()
	}
	out := append([]Token(nil), ts...)
	ReleaseTokenizer(t)
	return out, err
}

func vhSame(a, b []Token) bool {
	if len(a) != len(b) {
		return false
	}
	for i := range a {
		if a[i].Type != b[i].Type || a[i].Value != b[i].Value {
			return false
		}
	}
	return true
}

func VH_FindTagEnd() {
	s := symString(4)
	p := FindTagEnd(s, 0, TAG_VAR)
	symCover("called")
	if p >= 0 {
		symAssert(s[p] == '}' && s[p+1] == '}', "points-at-close")
	}
}

func VH_Agree() {
	n := symChoice(vhN + 1)
	s := symString(n)
	a, ea := vhTokenize(s, false)
	b, eb := vhTokenize(s, true)
	symCover("tokenized")
	symAssert((ea == nil) == (eb == nil), "same-acceptance")
	if ea == nil && eb == nil {
		symCover("both-ok")
		symAssert(vhSame(a, b), "same-tokens")
	}
}

func vhNoOpener(s string) bool {
	for i := 0; i+1 < len(s); i++ {
		if s[i] == '{' && (s[i+1] == '{' || s[i+1] == '%' || s[i+1] == '#') {
			return false
		}
	}
	return true
}

func VH_Text() {
	n := symChoice(vhN + 1)
	s := symString(n)
	symAssume(vhNoOpener(s))
	e := New()
	err := e.RegisterString("t", s)
	symAssert(err == nil, "parses")
	if err != nil {
		return
	}
	out, err := e.Render("t", nil)
	symCover("rendered")
	symAssert(err == nil, "renders")
	symAssert(out == s, "text-exact")
}

func VH_Around() {
	nl := symChoice(3)
	nr := symChoice(3)
	l := symString(nl)
	r := symString(nr)
	s := l + "{{ x }}" + r
	symAssume(vhNoOpener(l + "{"))
	symAssume(vhNoOpener(r))
	v := symString(1)
	e := New()
	err := e.RegisterString("t", s)
	symAssert(err == nil, "parses")
	if err != nil {
		return
	}
	out, err := e.Render("t", map[string]interface{}{"x": v})
	symCover("rendered")
	symAssert(err == nil, "renders")
	symAssert(out == l+v+r, "around-exact")
}

func vhTrimOr(plain, trim int) int {
	if symBool() {
		return trim
	}
	return plain
}

func vhParseToks(toks []Token) ([]Node, error) {
	p := &Parser{tokens: toks}
	p.initBlockHandlers()
	return p.parseOuterTemplate()
}

// {% if x %}a{% else %}b{% endif %} with every delimiter kind symbolic plain/trim
func VH_AcceptIf() {
	bs := func() int { return vhTrimOr(TOKEN_BLOCK_START, TOKEN_BLOCK_START_TRIM) }
	be := func() int { return vhTrimOr(TOKEN_BLOCK_END, TOKEN_BLOCK_END_TRIM) }
	toks := []Token{
		{bs(), "", 1}, {TOKEN_NAME, "if", 1}, {TOKEN_NAME, "x", 1}, {be(), "", 1},
		{TOKEN_TEXT, "a", 1},
		{bs(), "", 1}, {TOKEN_NAME, "else", 1}, {be(), "", 1},
		{TOKEN_TEXT, "b", 1},
		{bs(), "", 1}, {TOKEN_NAME, "endif", 1}, {be(), "", 1},
		{TOKEN_EOF, "", 1},
	}
	nodes, err := vhParseToks(toks)
	symCover("parsed")
	symAssert(err == nil, "accepts-trim-variants")
	if err == nil {
		symAssert(len(nodes) == 1, "one-node")
	}
}

func VH_For() {
	n := symChoice(3)
	xs := make([]interface{}, n)
	want := ""
	for i := range xs {
		v := symString(1)
		xs[i] = v
		want += v + ","
	}
	e := New()
	err := e.RegisterString("t", "{% for v in xs %}{{ v }},{% else %}E{% endfor %}")
	symAssert(err == nil, "parses")
	if err != nil {
		return
	}
	out, err := e.Render("t", map[string]interface{}{"xs": xs})
	symCover("rendered")
	symAssert(err == nil, "renders")
	if n == 0 {
		want = "E"
	}
	symAssert(out == want, "loop-output")
}

// C19 slice kernel: reference = Twig/PHP array_slice / mb_substr rules.
func vhRefSlice(n, start int, hasLen bool, length int) (int, int) {
	if start < 0 {
		start = n + start
		if start < 0 {
			start = 0
		}
	}
	if start > n {
		start = n
	}
	end := n
	if hasLen {
		if length >= 0 {
			if length < n-start {
				end = start + length
			}
		} else {
			end = n + length
			if end < start {
				end = start
			}
		}
	}
	return start, end
}

func VH_Slice() {
	e := New()
	f := e.environment.filters["slice"]
	n := symChoice(4)
	src := "abc"[:n]
	start := symInt()
	hasLen := symBool()
	length := symInt()
	var out interface{}
	var err error
	if hasLen {
		out, err = f(src, start, length)
	} else {
		out, err = f(src, start)
	}
	symCover("called")
	symAssert(err == nil, "no-error")
	lo, hi := vhRefSlice(n, start, hasLen, length)
	s, ok := out.(string)
	symAssert(ok, "string-result")
	symAssert(s == src[lo:hi], "twig-slice-rules")
}

// C01 repeat
func VH_Repeat() {
	v := symString(1)
	e := New()
	if e.RegisterString("t", "a{{ x }}b") != nil {
		return
	}
	ctx := map[string]interface{}{"x": v}
	o1, e1 := e.Render("t", ctx)
	o2, e2 := e.Render("t", ctx)
	symCover("twice")
	symAssert(e1 == nil && e2 == nil, "no-error")
	symAssert(o1 == o2, "second-render-equal")
}

// ---- C06
type vhPolicy struct {
	filt map[string]bool
	fn   map[string]bool
}

func (p *vhPolicy) IsFunctionAllowed(n string) bool {
	if b, ok := p.fn[n]; ok {
		return b
	}
	b := symBool()
	p.fn[n] = b
	return b
}
func (p *vhPolicy) IsFilterAllowed(n string) bool {
	if b, ok := p.filt[n]; ok {
		return b
	}
	b := symBool()
	p.filt[n] = b
	return b
}
func (p *vhPolicy) IsTagAllowed(n string) bool { return true }

var vhInner = []string{
	"{{ x|spy }}",
	"{{ x|spy|upper }}",
	"{{ x|upper|spy }}",
	"{% for i in xs|spy %}{{ i }}{% endfor %}",
	"{% apply spy %}a{% endapply %}",
	"{{ spyfn() }}",
	"{% if x|spy %}y{% endif %}",
	"{% include 'inner2' %}",
	"{% include 'inner2' only %}",
}

func VH_Sandbox() {
	k := symChoice(len(vhInner))
	e := New()
	pol := &vhPolicy{filt: map[string]bool{}, fn: map[string]bool{}}
	e.EnableSandbox(pol)
	e.AddFilter("spy", func(v interface{}, a ...interface{}) (interface{}, error) {
		symCover("spy-filter-invoked")
		symAssert(pol.IsFilterAllowed("spy"), "forbidden-filter-invoked")
		return v, nil
	})
	e.AddFunction("spyfn", func(a ...interface{}) (interface{}, error) {
		symCover("spy-fn-invoked")
		symAssert(pol.IsFunctionAllowed("spyfn"), "forbidden-function-invoked")
		return "r", nil
	})
	if e.RegisterString("main", "[{% include 'inner' sandboxed %}]") != nil {
		return
	}
	if e.RegisterString("inner", vhInner[k]) != nil {
		return
	}
	if e.RegisterString("inner2", "{{ x|spy }}") != nil {
		return
	}
	_, err := e.Render("main", map[string]interface{}{"x": "v", "xs": []interface{}{"a"}})
	symCover("rendered")
	_ = err
}

// ---- C17
var vhSent = errors.New("SENTINEL")

var vhFaultTpl = []string{
	"a{{ x|boom }}b",
	"{% for i in xs %}{{ i|boom }}{% endfor %}",
	"{% spaceless %}<a> {{ x|boom }}</a>{% endspaceless %}",
	"{% macro m(a) %}{{ a|boom }}{% endmacro %}{{ m(1) }}",
	"{% if x|boom %}y{% endif %}",
	"{% set z = x|boom %}{{ z }}",
	"{% include 'inc' %}",
	"{{ x|boom|boom }}",
}

func VH_Fault() {
	t := symChoice(len(vhFaultTpl))
	k := symInt()
	calls := 0
	failed := false
	e := New()
	e.AddFilter("boom", func(v interface{}, a ...interface{}) (interface{}, error) {
		calls++
		if calls == k {
			failed = true
			return nil, vhSent
		}
		return v, nil
	})
	if e.RegisterString("t", vhFaultTpl[t]) != nil {
		return
	}
	if e.RegisterString("inc", "[{{ x|boom }}]") != nil {
		return
	}
	out, err := e.Render("t", map[string]interface{}{"x": "v", "xs": []interface{}{"a", "b"}})
	symCover("rendered")
	if failed {
		symCover("fault-fired")
		symAssert(err != nil, "error-returned")
		symAssert(out == "", "empty-output-on-error")
		symAssert(errors.Is(err, vhSent), "cause-reachable")
	} else {
		symAssert(err == nil, "no-spurious-error")
	}
}

// ---- C15: Engine.Load with a timestamp-aware harness loader
type vhLoader struct {
	has   bool
	ver   int
	mtime int64
	tsErr bool
	loads int
}

var vhSrc = []string{"v0", "v1", "v2"}

func (l *vhLoader) Load(name string) (string, error) {
	l.loads++
	if !l.has {
		return "", ErrTemplateNotFound
	}
	return vhSrc[l.ver], nil
}
func (l *vhLoader) Exists(name string) bool { return l.has }
func (l *vhLoader) GetModifiedTime(name string) (int64, error) {
	if l.tsErr || !l.has {
		return 0, errors.New("stat failed")
	}
	return l.mtime, nil
}

func VH_Load() {
	e := New()
	l := &vhLoader{has: true, ver: 0, mtime: int64(symInt())}
	e.RegisterLoader(l)
	cache := symBool()
	auto := symBool()
	e.SetCache(cache)
	e.SetAutoReload(auto)
	o1, err := e.Render("n", nil)
	symAssert(err == nil && o1 == "v0", "first-load")
	// loader content changes (or not)
	changed := symBool()
	m2 := int64(symInt())
	if changed {
		symAssume(m2 > l.mtime)
		l.ver = 1
	} else {
		symAssume(m2 == l.mtime)
	}
	l.mtime = m2
	before := l.loads
	o2, err := e.Render("n", nil)
	symCover("second")
	symAssert(err == nil, "second-ok")
	reads := l.loads - before
	switch {
	case !cache:
		symAssert(reads == 1, "nocache-rereads")
		symAssert(o2 == vhSrc[l.ver], "nocache-serves-current")
	case auto && changed:
		symAssert(reads == 1 && o2 == "v1", "autoreload-sees-change")
	case auto && !changed:
		symAssert(reads == 0 && o2 == "v0", "autoreload-unchanged-not-reread")
	default:
		symAssert(reads == 0 && o2 == "v0", "cached-stays")
	}
}

// ---- C16 framing
func VH_Frame() {
	c := &CompiledTemplate{Name: symString(symChoice(3)), Source: symString(symChoice(3)),
		LastModified: int64(symInt()), CompileTime: int64(symInt()), AST: []byte(symString(symChoice(3)))}
	data, err := SerializeCompiledTemplate(c)
	symAssert(err == nil, "serializes")
	d, err := deserializeBinaryFormat(data)
	symCover("roundtrip")
	symAssert(err == nil, "deserializes")
	if err != nil {
		return
	}
	symAssert(d.Name == c.Name && d.Source == c.Source, "strings-equal")
	symAssert(d.LastModified == c.LastModified && d.CompileTime == c.CompileTime, "times-equal")
	symAssert(string(d.AST) == string(c.AST), "ast-equal")
}

// ---- C07 kernel
func vhUnescape(s string) (string, bool) {
	out := []byte{}
	for i := 0; i < len(s); {
		c := s[i]
		if c == '<' || c == '>' || c == '"' || c == '\'' {
			return "", false
		}
		if c != '&' {
			out = append(out, c)
			i++
			continue
		}
		refs := []struct {
			r string
			b byte
		}{{"&amp;", '&'}, {"&lt;", '<'}, {"&gt;", '>'}, {"&#34;", '"'}, {"&#39;", '\''}, {"&quot;", '"'}}
		ok := false
		for _, r := range refs {
			if len(s)-i >= len(r.r) && s[i:i+len(r.r)] == r.r {
				out = append(out, r.b)
				i += len(r.r)
				ok = true
				break
			}
		}
		if !ok {
			return "", false
		}
	}
	return string(out), true
}

func VH_Escape() {
	e := New()
	f := e.environment.filters["escape"]
	v := symString(symChoice(4))
	r, err := f(v)
	symCover("escaped")
	symAssert(err == nil, "no-error")
	s, ok := r.(string)
	symAssert(ok, "string")
	back, ok := vhUnescape(s)
	symAssert(ok, "no-raw-specials")
	symAssert(back == v, "decodes-back")
}

// ---- C20
type vhInnerT struct {
	Promoted string
	Shadow   string
}
type vhOuterT struct {
	vhInnerT
	Name   string
	Shadow string
	hidden string
}

func (o vhOuterT) ValMethod() string  { return "VM:" + o.Name }
func (o *vhOuterT) PtrMethod() string { return "PM:" + o.Name }

var vhAttrs = []string{"Name", "Shadow", "Promoted", "ValMethod", "PtrMethod", "hidden", "Nope"}

func VH_Attr() {
	o := vhOuterT{vhInnerT{symString(1), symString(1)}, symString(1), symString(1), symString(1)}
	k := symChoice(len(vhAttrs))
	usePtr := symChoice(2) == 1
	var want string
	switch vhAttrs[k] {
	case "Name":
		want = o.Name
	case "Shadow":
		want = o.Shadow
	case "Promoted":
		want = o.Promoted
	case "ValMethod":
		want = o.ValMethod()
	case "PtrMethod":
		want = (&o).PtrMethod()
	}
	e := New()
	if e.RegisterString("t", "{{ o."+vhAttrs[k]+" }}") != nil {
		return
	}
	var obj interface{} = o
	if usePtr {
		obj = &o
	}
	out, err := e.Render("t", map[string]interface{}{"o": obj})
	symCover("rendered")
	symAssert(err == nil, "no-error")
	symAssert(out == want, "attribute-value")
}

// ---- C03
var vhMapTpl = []string{
	"{% for k, v in m %}{{ k }}={{ v }};{% endfor %}",
	"{{ m|keys|join(',') }}",
	"{{ m|first }}",
	"{% for k, v in {'a': 1, 'b': 2, 'c': 3} %}{{ k }}{{ v }}{% endfor %}",
	"{{ m|length }}",
	"{{ d|date('D, d M Y') }}",
}

func vhRenderFresh(src string, ctx map[string]interface{}) (string, error) {
	e := New()
	if err := e.RegisterString("t", src); err != nil {
		return "", err
	}
	return e.Render("t", ctx)
}

func VH_MapOrder() {
	t := symChoice(len(vhMapTpl))
	ctx := map[string]interface{}{"m": map[string]interface{}{"a": 1, "b": 2, "c": 3}, "d": 1709600000}
	ea, eb := New(), New()
	if ea.RegisterString("t", vhMapTpl[t]) != nil || eb.RegisterString("t", vhMapTpl[t]) != nil {
		return
	}
	o1, e1 := ea.Render("t", ctx)
	symMapAdversary(true)
	o2, e2 := eb.Render("t", ctx)
	symMapAdversary(false)
	symCover("rendered-twice")
	symAssert((e1 == nil) == (e2 == nil), "same-error")
	symAssert(o1 == o2, "order-independent-output")
}

// ---- C01.frame / C18
func VH_Frozen() {
	e := New()
	if e.RegisterString("t", "a{{ x }}{% for i in xs %}{{ i }}{% endfor %}b") != nil {
		return
	}
	xs := []interface{}{symString(1), symString(1)}
	ctx := map[string]interface{}{"x": symString(1), "xs": xs}
	symMarkReadonly(e.templates["t"].nodes, "cached-template")
	symMarkReadonly(ctx, "caller-context")
	_, err := e.Render("t", ctx)
	symCover("rendered")
	symAssert(err == nil, "renders")
}

// ---- C02 discipline
func VH_Lockset() {
	e := New()
	al := NewArrayLoader(map[string]string{"inc": "I{{ x }}", "fresh": "F{{ x }}"})
	e.RegisterLoader(al)
	if e.RegisterString("t", "a{{ x }}{% include 'inc' %}") != nil {
		return
	}
	e.SetCache(symBool())
	symMarkShared(e, "engine")
	symConcurrentPhase(true)
	switch symChoice(3) {
	case 0:
		e.Render("t", map[string]interface{}{"x": "v"})
	case 1:
		e.Render("fresh", map[string]interface{}{"x": "v"})
	case 2:
		e.RegisterString("u", "z")
	}
	symConcurrentPhase(false)
	symCover("done")
}

// ---- C08.shape: a o1 b o2 c o3 d ; compare parse tree with reference precedence climbing
type vhOp struct {
	toks []string // one or two tokens
	typ  int
	prec int
	name string
}

var vhOps = []vhOp{
	{[]string{"or"}, TOKEN_NAME, 1, "or"}, {[]string{"and"}, TOKEN_NAME, 2, "and"},
	{[]string{"=="}, TOKEN_OPERATOR, 3, "=="}, {[]string{"<"}, TOKEN_OPERATOR, 3, "<"}, {[]string{"in"}, TOKEN_NAME, 3, "in"},
	{[]string{"not", "in"}, TOKEN_NAME, 3, "not in"}, {[]string{"starts", "with"}, TOKEN_NAME, 3, "starts with"},
	{[]string{"+"}, TOKEN_OPERATOR, 4, "+"}, {[]string{"-"}, TOKEN_OPERATOR, 4, "-"}, {[]string{"~"}, TOKEN_OPERATOR, 4, "~"},
	{[]string{"*"}, TOKEN_OPERATOR, 5, "*"}, {[]string{"/"}, TOKEN_OPERATOR, 5, "/"}, {[]string{"%"}, TOKEN_OPERATOR, 5, "%"},
	{[]string{"^"}, TOKEN_OPERATOR, 6, "^"},
}

// reference: fully parenthesised string by precedence climbing, left associative
func vhRefParse(names []string, ops []vhOp) string {
	pos := 0
	var parse func(minPrec int) string
	parse = func(minPrec int) string {
		lhs := names[pos]
		for pos < len(ops) && ops[pos].prec >= minPrec {
			op := ops[pos]
			pos++
			rhs := parse(op.prec + 1)
			lhs = "(" + lhs + " " + op.name + " " + rhs + ")"
		}
		return lhs
	}
	return parse(0)
}

func vhShow(n Node) string {
	switch x := n.(type) {
	case *VariableNode:
		return x.name
	case *BinaryNode:
		return "(" + vhShow(x.left) + " " + x.operator + " " + vhShow(x.right) + ")"
	case *UnaryNode:
		return "(" + x.operator + " " + vhShow(x.node) + ")"
	}
	return "?"
}

var vhK = 3

func VH_Shape() {
	names := []string{"a", "b", "c", "d", "e"}
	var ops []vhOp
	toks := []Token{{TOKEN_NAME, "a", 1}}
	for i := 0; i < vhK; i++ {
		op := vhOps[symChoice(len(vhOps))]
		ops = append(ops, op)
		for _, t := range op.toks {
			toks = append(toks, Token{op.typ, t, 1})
		}
		toks = append(toks, Token{TOKEN_NAME, names[i+1], 1})
	}
	toks = append(toks, Token{TOKEN_VAR_END, "", 1}, Token{TOKEN_EOF, "", 1})
	p := &Parser{tokens: toks}
	n, err := p.parseExpression()
	symCover("parsed")
	symAssert(err == nil, "parses")
	if err != nil {
		return
	}
	symAssert(p.tokenIndex == len(toks)-2, "consumes-all")
	symAssert(vhShow(n) == vhRefParse(names, ops), "precedence-shape")
}

// ---- C11.kernel: IncludeNode with symbolic option flags
func VH_Include() {
	e := New()
	if e.RegisterString("inc", "[{{ a }}{{ w }}{% set a = 'S' %}{% set z = 'Z' %}]") != nil {
		return
	}
	only, ign := symBool(), symBool()
	hasWith := symBool()
	var vars map[string]Node
	if hasWith {
		vars = map[string]Node{"w": NewLiteralNode("W", 1)}
	}
	missing := symBool()
	name := "inc"
	if missing {
		name = "nope"
	}
	inc := &IncludeNode{template: NewLiteralNode(name, 1), variables: vars, only: only, ignoreMissing: ign, line: 1}
	av := symString(1)
	ctx := NewRenderContext(e.environment, map[string]interface{}{"a": av}, e)
	var sb StringBuffer
	err := inc.Render(&sb, ctx)
	out := sb.String()
	symCover("included")
	if missing {
		if ign {
			symAssert(err == nil && out == "", "ignore-missing-empty")
		} else {
			symAssert(err != nil && errors.Is(err, ErrTemplateNotFound), "missing-reported")
		}
		return
	}
	symAssert(err == nil, "renders")
	wantA := av
	if only {
		wantA = ""
	}
	wantW := ""
	if hasWith {
		wantW = "W"
	}
	symAssert(out == "["+wantA+wantW+"]", "included-scope")
	// non-interference
	a2, _ := ctx.GetVariable("a")
	symAssert(a2 == interface{}(av), "includer-a-unchanged")
	_, hasZ := ctx.context["z"]
	_, hasW := ctx.context["w"]
	symAssert(!hasZ, "set-does-not-leak")
	symAssert(!hasW, "with-does-not-leak")
}

// ---- C09.truth: IfNode over literal conditions with symbolic values
func VH_Truth() {
	e := New()
	var v interface{}
	truthy := false
	switch symChoice(6) {
	case 0:
		b := symBool()
		v, truthy = b, b
	case 1:
		i := symInt()
		v, truthy = i, i != 0
	case 2:
		s := symString(symChoice(2))
		v, truthy = s, s != ""
	case 3:
		v, truthy = nil, false
	case 4:
		n := symChoice(3)
		v, truthy = make([]interface{}, n), n > 0
	case 5:
		m := map[string]interface{}{}
		if symBool() {
			m["k"] = 1
		}
		v, truthy = m, len(m) > 0
	}
	hasElse := symBool()
	var els []Node
	if hasElse {
		els = []Node{NewTextNode("E", 1)}
	}
	n := &IfNode{conditions: []Node{NewLiteralNode(v, 1)}, bodies: [][]Node{{NewTextNode("T", 1)}}, elseBranch: els, line: 1}
	ctx := NewRenderContext(e.environment, nil, e)
	var sb StringBuffer
	err := n.Render(&sb, ctx)
	symCover("rendered")
	symAssert(err == nil, "no-error")
	want := ""
	if truthy {
		want = "T"
	} else if hasElse {
		want = "E"
	}
	symAssert(sb.String() == want, "branch-selection")
}

// ---- C09.range / C05.termination
func VH_Range() {
	e := New()
	f := e.environment.functions["range"]
	start, end := symInt(), symInt()
	// mathematical element count is between 1 and 3 (no overflow in the subtraction)
	symAssume(end >= start)
	d := uint64(end) - uint64(start)
	symAssume(d <= 2)
	r, err := f(start, end)
	symCover("returned")
	symAssert(err == nil, "no-error")
	xs, ok := r.([]interface{})
	symAssert(ok, "list")
	symAssert(uint64(len(xs)) == d+1, "count")
	if len(xs) > 0 {
		symAssert(xs[0] == interface{}(start), "first")
	}
}

// ---- C01.reset: NewRenderContext on a havoc'd pooled context
func VH_ResetCtx() {
	e := New()
	old := &RenderContext{
		context:      map[string]interface{}{},
		blocks:       map[string][]Node{},
		parentBlocks: map[string][]Node{},
		macros:       map[string]Node{},
	}
	if symBool() {
		old.context["stale"] = 1
	}
	if symBool() {
		old.blocks["b"] = []Node{NewTextNode("x", 1)}
	}
	if symBool() {
		old.parentBlocks["b"] = []Node{NewTextNode("y", 1)}
	}
	if symBool() {
		old.macros["m"] = NewTextNode("z", 1)
	}
	old.extending, old.inParentCall, old.sandboxed = symBool(), symBool(), symBool()
	if symBool() {
		old.parent = old
	}
	if symBool() {
		old.currentBlock = &BlockNode{name: "b"}
	}
	renderContextPool.Put(old)
	ctx := NewRenderContext(e.environment, map[string]interface{}{"k": 1}, e)
	symCover("got")
	symAssert(ctx == old, "recycled-object-was-used")
	symAssert(len(ctx.context) == 1 && len(ctx.blocks) == 0 && len(ctx.parentBlocks) == 0 && len(ctx.macros) == 0, "maps-reset")
	symAssert(!ctx.extending && !ctx.inParentCall && !ctx.sandboxed, "flags-reset")
	symAssert(ctx.parent == nil && ctx.currentBlock == nil, "pointers-reset")
}

// ---- C10: 3-level inheritance, per level the block 'a' is absent/defined/empty/parent()
func vhBlockSrc(kind int, lvl string, v string) string {
	switch kind {
	case 1:
		return "{% block a %}" + lvl + "{{ x }}{% endblock %}"
	case 2:
		return "{% block a %}{% endblock %}"
	case 3:
		return "{% block a %}" + lvl + "({{ parent() }}){% endblock %}"
	}
	return ""
}

func vhRefInherit(kinds []int, names []string, x string) string {
	// kinds[0] is the base (always defined kind 1), higher index = more derived
	var render func(level int) string
	render = func(level int) string {
		for l := level; l >= 0; l-- {
			switch kinds[l] {
			case 1:
				return names[l] + x
			case 2:
				return ""
			case 3:
				return names[l] + "(" + render(l-1) + ")"
			}
		}
		return ""
	}
	return "<" + render(len(kinds)-1) + ">"
}

func VH_Inherit() {
	k1, k2 := symChoice(4), symChoice(4)
	x := symString(1)
	e := New()
	if e.RegisterString("base", "<{% block a %}B{{ x }}{% endblock %}>") != nil {
		return
	}
	if e.RegisterString("mid", "{% extends 'base' %}"+vhBlockSrc(k1, "M", x)) != nil {
		return
	}
	if e.RegisterString("top", "{% extends 'mid' %}junk"+vhBlockSrc(k2, "T", x)) != nil {
		return
	}
	out, err := e.Render("top", map[string]interface{}{"x": x})
	symCover("rendered")
	want := vhRefInherit([]int{1, k1, k2}, []string{"B", "M", "T"}, x)
	symAssert(err == nil, "renders")
	if err == nil {
		symAssert(out == want, "block-substitution")
	}
}

// ---- C12.forms
func VH_MacroForms() {
	a := symString(1)
	form := symChoice(4)
	lib := "{% macro m(p, q='D') %}[{{ p }}|{{ q }}]{% endmacro %}"
	var main string
	switch form {
	case 0:
		main = lib + "{{ m(v) }}"
	case 1:
		main = lib + "{{ _self.m(v) }}"
	case 2:
		main = "{% import 'lib' as l %}{{ l.m(v) }}"
	case 3:
		main = "{% from 'lib' import m as g %}{{ g(v) }}"
	}
	e := New()
	if e.RegisterString("lib", lib) != nil || e.RegisterString("main", main) != nil {
		return
	}
	out, err := e.Render("main", map[string]interface{}{"v": a})
	symCover("rendered")
	symAssert(err == nil, "renders")
	symAssert(out == "["+a+"|D]", "macro-binding")
}

// ---- C04.verbatim / comment
func VH_Verbatim() {
	n := symChoice(4)
	v := symString(n)
	// body must not contain the closing tag opener sequence "{%" to stay a well-formed verbatim body
	for i := 0; i+1 < len(v); i++ {
		symAssume(!(v[i] == '{' && v[i+1] == '%'))
	}
	if n > 0 {
		symAssume(v[n-1] != '{')
	}
	e := New()
	err := e.RegisterString("t", "{% verbatim %}"+v+"{% endverbatim %}")
	symAssert(err == nil, "parses")
	if err != nil {
		return
	}
	out, err := e.Render("t", map[string]interface{}{"x": "LEAK"})
	symCover("rendered")
	symAssert(err == nil, "renders")
	symAssert(out == v, "verbatim-exact")
}

func vhQuote(s string) string { return strconv.Quote(s) }

// translator-validation harness: arbitrary short template over a tag-heavy alphabet, observed results
func VH_Observe() {
	alpha := "{}%#- a\n\\\"x|.1(')"
	n := symChoice(9)
	b := make([]byte, n)
	for i := range b {
		b[i] = alpha[symChoice(len(alpha))]
	}
	src := string(b)
	symObserve("src", src)
	e := New()
	err := e.RegisterString("t", src)
	symObserve("parse-err", err)
	if err != nil {
		return
	}
	out, err := e.Render("t", map[string]interface{}{"x": "V", "a": []interface{}{"p", "q"}})
	symObserve("render-err", err)
	symObserve("out", out)
}

func VH_Observe2() {
	n := symChoice(81)
	src := symString(n)
	symObserve("src", src)
	e := New()
	e.RegisterString("inc", "<{{ x }}>")
	e.RegisterString("base", "B[{% block b %}d{% endblock %}]")
	e.RegisterString("lib", "{% macro m(p, q='D') %}({{ p }},{{ q }}){% endmacro %}")
	err := e.RegisterString("t", src)
	symObserve("parse-err", err)
	if err != nil {
		return
	}
	out, err := e.Render("t", map[string]interface{}{"x": "V<&", "a": []interface{}{"p", "q"}, "m": map[string]interface{}{"k": "v"}, "n": 3, "f": 1.5, "t": true, "z": nil})
	symObserve("render-err", err)
	symObserve("out", out)
}
