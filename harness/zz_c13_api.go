package twig

import "runtime"

// C13: whitespace-control dashes trim adjacent whitespace and change nothing else. Public API only.
//
// A template is a list of pieces: text, tag, text, tag, ... Every tag delimiter gets a symbolic
// "dash" bit and every text piece is W · core · W' with symbolic whitespace-ish bytes W, W'.
// Oracle: the same template without any dash in which the whitespace next to a dashed delimiter was
// deleted by hand must be accepted alike and render to the same bytes.

type vhTag struct {
	block   bool   // {% %} or {{ }}
	content string // inside the delimiters, without surrounding blanks
}

type vhTpl struct {
	name  string
	texts []string // len(tags)+1 text cores
	tags  []vhTag
}

var vhC13Corpus = []vhTpl{
	{"print", []string{"a", "b"}, []vhTag{{false, "x"}}},
	{"if-else", []string{"a", "T", "F", "b"}, []vhTag{{true, "if x"}, {true, "else"}, {true, "endif"}}},
	{"if-elseif", []string{"a", "T", "F", "b"}, []vhTag{{true, "if n"}, {true, "elseif x"}, {true, "endif"}}},
	{"for-else", []string{"a", "i", "E", "b"}, []vhTag{{true, "for i in xs"}, {true, "else"}, {true, "endfor"}}},
	{"for-print", []string{"a", "[", "]", "b"}, []vhTag{{true, "for i in xs"}, {false, "i"}, {true, "endfor"}}},
	{"block", []string{"a", "B", "b"}, []vhTag{{true, "block c"}, {true, "endblock"}}},
	{"set", []string{"a", "b", "c"}, []vhTag{{true, "set v = 1"}, {false, "v"}}},
	{"do", []string{"a", "b"}, []vhTag{{true, "do 1"}}},
	{"include", []string{"a", "b"}, []vhTag{{true, "include 'inc'"}}},
	{"import", []string{"a", "b", "c"}, []vhTag{{true, "import 'lib' as l"}, {false, "l.m(1)"}}},
	{"from", []string{"a", "b", "c"}, []vhTag{{true, "from 'lib' import m"}, {false, "m(1)"}}},
	{"macro", []string{"a", "M", "b", "c"}, []vhTag{{true, "macro k(p)"}, {true, "endmacro"}, {false, "k(1)"}}},
	{"apply", []string{"a", "u", "b"}, []vhTag{{true, "apply upper"}, {true, "endapply"}}},
	{"verbatim", []string{"a", "v", "b"}, []vhTag{{true, "verbatim"}, {true, "endverbatim"}}},
	{"spaceless", []string{"a", "<p>", "b"}, []vhTag{{true, "spaceless"}, {true, "endspaceless"}}},
	{"extends", []string{"", "", "X", ""}, []vhTag{{true, "extends 'base'"}, {true, "block c"}, {true, "endblock"}}},
	// tags directly next to each other (empty text pieces): a dash must not reach past the neighbouring tag
	{"adjacent-prints", []string{"a", "", "c"}, []vhTag{{false, "x"}, {false, "x"}}},
	{"adjacent-set-print", []string{"a", "", "c"}, []vhTag{{true, "set v = 1"}, {false, "v"}}},
	{"adjacent-if", []string{"a", "", "", "c"}, []vhTag{{true, "if x"}, {false, "x"}, {true, "endif"}}},
	{"adjacent-for-end", []string{"a", "i", "", "c"}, []vhTag{{true, "for i in xs"}, {true, "endfor"}, {false, "x"}}},
	{"comment-between", []string{"a", "{##}", "c"}, []vhTag{{false, "x"}, {false, "x"}}},
	// text that starts or ends with a backslash-escaped opener (literal text for the tokenizers)
	{"escaped-after", []string{"a", "\\{{ n }}b"}, []vhTag{{false, "x"}}},
	{"escaped-before", []string{"a\\{% n %}", "b"}, []vhTag{{false, "x"}}},
	{"escaped-between", []string{"a", "\\{{ n }}", "c"}, []vhTag{{true, "if x"}, {true, "endif"}}},
	{"escaped-comment", []string{"a", "\\{# n #} b"}, []vhTag{{true, "set v = 1"}}},
	// tags written without blanks inside the delimiters (content marked with a leading ~): the dash is
	// a dash whatever follows it
	{"tight-number", []string{"a", "b"}, []vhTag{{false, "~1"}}},
	{"tight-float", []string{"a", "b"}, []vhTag{{false, "~1.5"}}},
	{"tight-name", []string{"a", "b"}, []vhTag{{false, "~x"}}},
	{"tight-string", []string{"a", "b"}, []vhTag{{false, "~'s'"}}},
	{"tight-paren", []string{"a", "b"}, []vhTag{{false, "~(2)"}}},
	{"tight-if", []string{"a", "T", "b"}, []vhTag{{true, "~if x"}, {true, "~endif"}}},
	{"tight-set-number", []string{"a", "b", "c"}, []vhTag{{true, "~set v = 3"}, {false, "~v"}}},
}

func vhOpen(t vhTag, dash bool) string {
	s := "{{"
	if t.block {
		s = "{%"
	}
	if dash {
		s += "-"
	}
	if len(t.content) > 0 && t.content[0] == '~' {
		return s + t.content[1:]
	}
	return s + " " + t.content + " "
}
func vhClose(t vhTag, dash bool) string {
	s := ""
	if dash {
		s = "-"
	}
	if t.block {
		return s + "%}"
	}
	return s + "}}"
}

func vhC13Engine() *Engine {
	e := New()
	e.RegisterString("inc", "<I>")
	e.RegisterString("lib", "{% macro m(p) %}({{ p }}){% endmacro %}")
	e.RegisterString("base", "[{% block c %}D{% endblock %}]")
	return e
}

// vhC13Build assembles the dashed source and its hand-trimmed dash-free reference.
func vhC13Build(tp vhTpl, dl, dr []bool, wls, wrs []string) (string, string) {
	nt := len(tp.tags)
	src, ref := "", ""
	for i := 0; i <= nt; i++ {
		text := wls[i] + tp.texts[i] + wrs[i]
		rtext := text
		if i > 0 && dr[i-1] {
			rtext = vhTrimLeftWS(rtext)
		}
		if i < nt && dl[i] {
			rtext = vhTrimRightWS(rtext)
		}
		src += text
		ref += rtext
		if i < nt {
			src += vhOpen(tp.tags[i], dl[i]) + vhClose(tp.tags[i], dr[i])
			ref += vhOpen(tp.tags[i], false) + vhClose(tp.tags[i], false)
		}
	}
	return src, ref
}

func vhC13Check(tp vhTpl, src, ref string) {
	symTag("tpl:" + tp.name)
	ctx := map[string]interface{}{"x": "V", "n": 0, "xs": []interface{}{"p", "q"}}
	e := vhC13Engine()
	e1 := e.RegisterString("src", src)
	e2 := e.RegisterString("ref", ref)
	symCover("registered")
	symAssert(e2 == nil, "dash-free-reference-parses")
	if e2 != nil {
		return
	}
	symAssert(e1 == nil, "dash-accepted")
	if e1 != nil {
		return
	}
	o1, r1 := e.Render("src", ctx)
	o2, r2 := e.Render("ref", ctx)
	symCover("rendered")
	symAssert((r1 == nil) == (r2 == nil), "same-render-error")
	if r1 == nil && r2 == nil {
		symAssert(o1 == o2, "dash-only-trims")
	}
}

// VH_C13_Subsets: every subset of the delimiters of every corpus template carries a dash;
// neighbouring text has fixed whitespace.
func VH_C13_Subsets() {
	tp := vhC13Corpus[symChoice(len(vhC13Corpus))]
	nt := len(tp.tags)
	dl := make([]bool, nt)
	dr := make([]bool, nt)
	for i := range tp.tags {
		dl[i], dr[i] = symBool(), symBool()
	}
	wls := make([]string, nt+1)
	wrs := make([]string, nt+1)
	for i := 0; i <= nt; i++ {
		if i > 0 {
			wls[i] = " \n"
		}
		if i < nt {
			wrs[i] = "\t "
		}
	}
	src, ref := vhC13Build(tp, dl, dr, wls, wrs)
	vhC13Check(tp, src, ref)
}

// the four whitespace bytes of the property, the other ASCII/Latin-1 "space" bytes a wrong trimmer
// might also eat (VT, FF, NUL, NBSP 0xA0, NEL 0x85), and a letter
const vhC13Alphabet = " \t\n\r\v\f\x00\xa0\x85a"

// VH_C13_Trim: one text piece of a corpus template gets symbolic bytes from vhC13Alphabet on both
// sides, the two delimiters next to it get symbolic dashes.
func VH_C13_Trim() {
	k := symParam("K", -1)
	if k < 0 {
		k = symChoice(len(vhC13Corpus))
	}
	tp := vhC13Corpus[k]
	nt := len(tp.tags)
	nw := symParam("W", 2)
	p := symChoice(nt + 1)
	dl := make([]bool, nt)
	dr := make([]bool, nt)
	wls := make([]string, nt+1)
	wrs := make([]string, nt+1)
	// the delimiters next to piece p always get symbolic dashes; in the templates whose tags stand
	// directly next to each other every delimiter does (a dash must only affect the text next to it)
	adjacent := len(tp.name) > 8 && (tp.name[:8] == "adjacent" || tp.name == "comment-between")
	for i := 0; i < nt; i++ {
		if adjacent || i == p-1 {
			dr[i] = symBool()
		}
		if adjacent || i == p {
			dl[i] = symBool()
		}
	}
	// the other pieces: fixed whitespace around a non-empty core, nothing around an empty one
	for i := 0; i <= nt; i++ {
		if i == p || tp.texts[i] == "" || tp.texts[i] == "{##}" {
			continue
		}
		if i > 0 {
			wls[i] = " \n"
		}
		if i < nt {
			wrs[i] = "\t "
		}
	}
	if p > 0 {
		wls[p] = symStringIn(symChoice(nw+1), vhC13Alphabet)
	}
	if p < nt {
		wrs[p] = symStringIn(symChoice(nw+1), vhC13Alphabet)
	}
	src, ref := vhC13Build(tp, dl, dr, wls, wrs)
	vhC13Check(tp, src, ref)
}

// VH_C13_Dense: the same equivalence (dashed template = hand-trimmed template) when the construct
// stands inside a template with hundreds of tags: k tags in front (k around the count at which the
// tokenizer's token storage first grows) and 100 behind, all contributing nothing; sync.Pool contents
// dropped first so that the tokenizer starts with its initial storage.
func VH_C13_Dense() {
	tp := []vhTpl{vhC13Corpus[0], vhC13Corpus[1], vhC13Corpus[4], vhC13Corpus[6], vhC13Corpus[16]}[symChoice(5)]
	nt := len(tp.tags)
	dl := make([]bool, nt)
	dr := make([]bool, nt)
	for i := range tp.tags {
		dl[i], dr[i] = symBool(), symBool()
	}
	wls := make([]string, nt+1)
	wrs := make([]string, nt+1)
	for i := 0; i <= nt; i++ {
		wls[i], wrs[i] = " \n", "\t "
	}
	src, ref := vhC13Build(tp, dl, dr, wls, wrs)
	k := symParam("PADLO", 83) + symChoice(symParam("PADN", 5))
	unit := "{# c #}"
	if symBool() {
		unit = "{{ zz }}"
	}
	pre, post := vhRepeatStr(unit, k), vhRepeatStr(unit, 100)
	runtime.GC()
	runtime.GC()
	vhC13Check(tp, pre+src+post, pre+ref+post)
}
