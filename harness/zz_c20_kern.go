package twig

// C20 kernel obligation (in-package): the attribute cache's capacity is lowered so that eviction
// runs inside the bound; the answer with any history equals the answer on an empty cache.

func VH_C20_Evict() {
	h := symParam("H", 3)
	attributeCache.Lock()
	attributeCache.maxSize = 2
	attributeCache.Unlock()
	e := New()
	ctx := NewRenderContext(e.environment, nil, e)
	// earlier lookups: representative (type, name) pairs - same name on two types, field, promoted
	// field, value method, pointer method, missing name
	keys := [][2]int{{0, 0}, {3, 0}, {0, 2}, {1, 6}, {3, 5}, {0, 9}}
	for i := 0; i < h; i++ {
		k := keys[symChoice(len(keys))]
		hs, ha := k[0], k[1]
		ho := vhC20Make(hs)
		v, err := ctx.getAttribute(ho.val, vhC20Attrs[ha])
		symAssert(err == nil && ctx.ToString(v) == ho.want[vhC20Attrs[ha]], "history-lookup-right")
	}
	s, a := symChoice(4), symChoice(len(vhC20Attrs))
	symTag("lookup:" + vhC20Shapes[s] + "." + vhC20Attrs[a])
	o := vhC20Make(s)
	v, err := ctx.getAttribute(o.val, vhC20Attrs[a])
	symCover("looked-up")
	attributeCache.RLock()
	n, cs := len(attributeCache.m), attributeCache.currSize
	attributeCache.RUnlock()
	symAssert(n <= 2 && cs == n, "cache-size-bounded-and-consistent")
	symAssert(err == nil, "no-error")
	symAssert(ctx.ToString(v) == o.want[vhC20Attrs[a]], "attribute-value-independent-of-history")
}
