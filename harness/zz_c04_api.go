package twig

// C04: literal text is emitted exactly; comments and verbatim bodies are inert. Public API only.

// VH_C04_Text: a source without any tag opener renders as itself.
func VH_C04_Text() {
	n := symChoice(symParam("N", 8) + 1)
	s := symString(n)
	symAssume(vhNoOpener(s))
	e := New()
	err := e.RegisterString("t", s)
	symAssert(err == nil, "parses")
	if err != nil {
		return
	}
	out, err := e.Render("t", nil)
	symCover("rendered")
	symAssert(err == nil, "renders")
	symAssert(out == s, "text-exact")
}

var vhC04Tags = []struct {
	src          string
	trimL, trimR bool
	val          int // 0: prints x, 1: prints nothing, 2: prints "y" if x != "" (x is 1 byte: always)
}{
	{"{{x}}", false, false, 0},
	{"{{ x }}", false, false, 0},
	{"{{- x -}}", true, true, 0},
	{"{% if x %}y{% endif %}", false, false, 2},
	{"{# c #}", false, false, 1},
	{"{% set y = 1 %}", false, false, 1},
	{"{{- x }}", true, false, 0},
	{"{{ x -}}", false, true, 0},
	{"{%- set y = 1 -%}", true, true, 1},
}

func vhTrimRightWS(s string) string {
	n := len(s)
	for n > 0 && vhIsWS(s[n-1]) {
		n--
	}
	return s[:n]
}
func vhTrimLeftWS(s string) string {
	i := 0
	for i < len(s) && vhIsWS(s[i]) {
		i++
	}
	return s[i:]
}

// VH_C04_Around: L · TAG · R with symbolic literal text L and R around a concrete tag.
func VH_C04_Around() {
	k := symChoice(len(vhC04Tags))
	nl := symChoice(symParam("NL", 3) + 1)
	nr := symChoice(symParam("NR", 3) + 1)
	l := symString(nl)
	r := symString(nr)
	tag := vhC04Tags[k]
	// "literal text between tags": L and R contain no opener, and L does not end in '{'
	// (L+"{" has no opener either), R cannot complete anything since the tag is closed.
	symAssume(vhNoOpener(l + "{"))
	symAssume(vhNoOpener(r))
	if nl > 0 && l[nl-1] == '\\' {
		symTag("backslash-before-tag")
	}
	x := symString(1)
	symAssume(x[0] != 0 && x[0] != '0') // keep x truthy for the if tag; value bytes are C07/C09's subject
	s := l + tag.src + r
	e := New()
	err := e.RegisterString("t", s)
	symAssert(err == nil, "parses")
	if err != nil {
		return
	}
	out, err := e.Render("t", map[string]interface{}{"x": x})
	symCover("rendered")
	symAssert(err == nil, "renders")
	wl, wr := l, r
	if tag.trimL {
		wl = vhTrimRightWS(l)
	}
	if tag.trimR {
		wr = vhTrimLeftWS(r)
	}
	mid := x
	if tag.val == 1 {
		mid = ""
	} else if tag.val == 2 {
		mid = "y"
	}
	symAssert(out == wl+mid+wr, "around-exact")
}

// VH_C04_Comment: a comment contributes nothing and nothing inside it is evaluated.
func VH_C04_Comment() {
	n := symChoice(symParam("N", 4) + 1)
	c := symString(n)
	for i := 0; i+1 < n; i++ {
		symAssume(!(c[i] == '#' && c[i+1] == '}'))
	}
	if n > 0 {
		symAssume(c[n-1] != '#')
	}
	called := false
	e := New()
	e.AddFunction("spy", func(a ...interface{}) (interface{}, error) { called = true; return "S", nil })
	e.AddFilter("spyf", func(v interface{}, a ...interface{}) (interface{}, error) { called = true; return v, nil })
	err := e.RegisterString("t", "a{#"+c+"#}b")
	symAssert(err == nil, "parses")
	if err != nil {
		return
	}
	out, err := e.Render("t", map[string]interface{}{"x": "LEAK"})
	symCover("rendered")
	symAssert(err == nil, "renders")
	symAssert(out == "ab", "comment-contributes-nothing")
	symAssert(!called, "comment-not-evaluated")
}

// VH_C04_Verbatim: the body of a verbatim block is emitted exactly and never evaluated.
func VH_C04_Verbatim() {
	n := symChoice(symParam("N", 4) + 1)
	v := symString(n)
	// a well-formed verbatim body: it does not contain a block opener (which could start the end tag)
	for i := 0; i+1 < n; i++ {
		symAssume(!(v[i] == '{' && v[i+1] == '%'))
	}
	if n > 0 {
		symAssume(v[n-1] != '{')
	}
	called := false
	e := New()
	e.AddFunction("spy", func(a ...interface{}) (interface{}, error) { called = true; return "S", nil })
	// input classes (exclusive), used as the identity of known findings
	hasOpener := !vhNoOpener(v)
	if hasOpener {
		symTag("body-contains-opener")
	} else if n > 0 && v[n-1] == '\\' {
		symTag("backslash-before-tag")
	}
	err := e.RegisterString("t", "{% verbatim %}"+v+"{% endverbatim %}")
	symAssert(err == nil, "parses")
	if err != nil {
		return
	}
	out, err := e.Render("t", map[string]interface{}{"x": "LEAK", "y": "LEAK2"})
	symCover("rendered")
	symAssert(err == nil, "renders")
	out2, err2 := e.Render("t", map[string]interface{}{"x": 1, "spy": "Q"})
	symAssert(err2 == nil && out2 == out, "verbatim-context-independent")
	symAssert(!called, "verbatim-not-evaluated")
	symAssert(out == v, "verbatim-exact")
}

// ---- C04.placement: verbatim and comments are inert wherever they stand --------------------------
// The body is rendered once at top level; the same verbatim block placed inside every construct that
// has a body of its own (if, for, block, macro with a parameter named like the variable in the body,
// included template, overriding block of a child template, apply, nested macro call through import)
// gives the same bytes (upper-cased under `apply upper`), whatever the context holds, and calls nothing.

var vhC04Cores = []string{"{{ x }}", "{{ spy() }}", "{{ x|upper }}", "{# c #}", "x", "{{x}}{{ y }}", "#}{{ x }}"}

type vhC04Place struct {
	name     string
	pre, suf string
	lib      int // 0: none, 1: body is the included template, 2: child of base, 3: imported macro
	upper    bool
}

var vhC04Places = []vhC04Place{
	{"if", "{% if 1 %}", "{% endif %}", 0, false},
	{"else", "{% if 0 %}{% else %}", "{% endif %}", 0, false},
	{"for", "{% for i in [1] %}", "{% endfor %}", 0, false},
	{"block", "{% block b %}", "{% endblock %}", 0, false},
	{"macro", "{% macro m(x, y) %}", "{% endmacro %}{{ m('ARG', 'ARG2') }}", 0, false},
	{"macro-self", "{% macro m(x, y) %}", "{% endmacro %}{{ _self.m('ARG', 'ARG2') }}", 0, false},
	{"include", "", "", 1, false},
	{"child-block", "{% extends 'base' %}{% block b %}", "{% endblock %}", 2, false},
	{"import", "{% macro m(x, y) %}", "{% endmacro %}", 3, false},
	{"apply", "{% apply upper %}", "{% endapply %}", 0, true},
	{"for-else", "{% for i in [] %}{% else %}", "{% endfor %}", 0, false},
	// literal text directly before / after the unit inside the construct (adjacent text must not fuse with it)
	{"macro-text-before", "{% macro m(x, y) %}T:", "{% endmacro %}{{ m('ARG', 'ARG2') }}", 4, false},
	{"macro-text-around", "{% macro m(x, y) %}T:", ":U{% endmacro %}{{ m('ARG', 'ARG2') }}", 5, false},
	{"import-text-before", "{% macro m(x, y) %}T:", "{% endmacro %}", 6, false},
	{"if-text-before", "{% if 1 %}T:", "{% endif %}", 4, false},
	{"block-text-around", "{% block b %}T:", ":U{% endblock %}", 5, false},
}

func vhUpperASCII(s string) string {
	b := []byte(s)
	for i, c := range b {
		if c >= 'a' && c <= 'z' {
			b[i] = c - 32
		}
	}
	return string(b)
}

func VH_C04_Placement() {
	core := vhC04Cores[symChoice(len(vhC04Cores))]
	pre := symStringIn(symChoice(2), "a {")
	post := symStringIn(symChoice(2), "a }")
	body := pre + core + post
	kind := symChoice(3) // 0: verbatim block, 1: comment, 2: literal text with a backslash-escaped opener
	p := vhC04Places[symChoice(len(vhC04Places))]
	symTag("place:" + p.name + " core:" + core)
	var unit string
	if kind == 2 {
		// \{{ ... }} is literal text (how much of the backslash survives is a known finding of C04.around;
		// here only placement independence is asked: the same bytes as at top level, nothing evaluated)
		symTag("escaped-text")
		if core == "{# c #}" || core == "#}{{ x }}" || core == "x" || core == "{{x}}{{ y }}" {
			symAssume(false) // cores that are not one escaped opener followed by text
		}
		unit = pre + "\\" + core + post
	} else if kind == 0 {
		unit = "{% verbatim %}" + body + "{% endverbatim %}"
	} else {
		symTag("comment")
		if core == "{# c #}" || core == "#}{{ x }}" {
			symAssume(false) // a comment ends at the first #}
		}
		if len(post) > 0 && post[0] == '}' {
			body += " "
		}
		unit = "{#" + body + "#}"
	}
	called := false
	mk := func() *Engine {
		e := New()
		e.AddFunction("spy", func(a ...interface{}) (interface{}, error) { called = true; return "S", nil })
		e.RegisterString("base", "[{% block b %}{% endblock %}]")
		return e
	}
	ctx := map[string]interface{}{"x": "LEAK", "y": "LEAK2"}
	// reference: the unit alone, at top level
	e0 := mk()
	if e0.RegisterString("t", "<"+unit+">") != nil {
		symAssume(false) // bodies the parser rejects at top level are C04.verbatim's subject
	}
	ref, rerr := e0.Render("t", ctx)
	if rerr != nil {
		symAssume(false)
	}
	if kind == 1 {
		symAssert(ref == "<>", "comment-contributes-nothing")
	}
	e := mk()
	var err error
	want := ref
	switch p.lib {
	case 0:
		err = e.RegisterString("t", "<"+p.pre+unit+p.suf+">")
	case 1:
		e.RegisterString("inc", unit)
		err = e.RegisterString("t", "<{% include 'inc' %}>")
	case 2:
		err = e.RegisterString("t", p.pre+"<"+unit+">"+p.suf)
		want = "[" + ref + "]"
	case 3, 6:
		e.RegisterString("lib", p.pre+unit+p.suf)
		err = e.RegisterString("t", "{% import 'lib' as l %}<{{ l.m('ARG', 'ARG2') }}>")
	case 4, 5:
		err = e.RegisterString("t", "<"+p.pre+unit+p.suf+">")
	}
	if p.lib >= 4 {
		// ref is "<" + unit output + ">"
		want = "<T:" + ref[1:len(ref)-1]
		if p.lib == 5 {
			want += ":U"
		}
		want += ">"
	}
	if p.upper {
		want = vhUpperASCII(ref)
	}
	symAssert(err == nil, "placed-parses")
	if err != nil {
		return
	}
	out, err := e.Render("t", ctx)
	symCover("rendered")
	symAssert(err == nil, "placed-renders")
	symAssert(out == want, "same-bytes-as-top-level")
	out2, err2 := e.Render("t", map[string]interface{}{"x": 7, "y": nil, "spy": "Q"})
	symAssert(err2 == nil && out2 == out, "placed-context-independent")
	symAssert(!called, "placed-not-evaluated")
}

// ---- C04.stray: text after a tag that closes nothing --------------------------------------------------
var vhC04StrayTags = []string{"endif", "endfor", "endblock", "endmacro", "else", "elseif x", "endspaceless", "endapply", "endverbatim", "endset", "endwith", "endnothing"}

// VH_C04_Stray: L {% tag %} R with a tag that ends or continues a block although none is open (at top
// level, after a completed block, inside another kind of block). Either the template is rejected, or
// every byte of L and R is in the output: text is never dropped silently.
func VH_C04_Stray() {
	tag := vhC04StrayTags[symChoice(len(vhC04StrayTags))]
	l := symStringIn(symChoice(1+symParam("N", 2)), "a <\xc3")
	r := symStringIn(symChoice(1+symParam("N", 2)), "b >\xa9")
	form := symChoice(4)
	symTag("tag:" + tag + " form:" + []string{"top", "after-if", "after-for", "trim"}[form])
	var src, want string
	switch form {
	case 0:
		src, want = l+"{% "+tag+" %}"+r, l+r
	case 1:
		src, want = l+"{% if x %}y{% endif %}{% "+tag+" %}"+r, l+"y"+r
	case 2:
		src, want = "{% for i in [1] %}"+l+"{% endfor %}{% "+tag+" %}"+r, l+r
	default:
		src, want = l+"{%- "+tag+" -%}"+r, ""
	}
	e := New()
	if e.RegisterString("t", src) != nil {
		symCover("rejected")
		return
	}
	out, err := e.Render("t", map[string]interface{}{"x": 1})
	symCover("accepted")
	if err != nil {
		return
	}
	if form == 3 {
		// with dashes only blanks next to the tag may go: what is left of L and R must still be there
		symAssert(len(out) >= len(vhTrimRightBlank(l))+len(vhTrimLeftBlank(r)), "text-after-misplaced-tag-dropped")
		return
	}
	symAssert(out == want, "text-after-misplaced-tag-dropped")
}

func vhTrimRightBlank(s string) string {
	for len(s) > 0 && s[len(s)-1] == ' ' {
		s = s[:len(s)-1]
	}
	return s
}
func vhTrimLeftBlank(s string) string {
	for len(s) > 0 && s[0] == ' ' {
		s = s[1:]
	}
	return s
}
