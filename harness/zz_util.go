package twig

// Helpers shared by the harness files. Public API of the package only, so that this file
// keeps compiling when internals are refactored.

func vhNoOpener(s string) bool {
	for i := 0; i+1 < len(s); i++ {
		if s[i] == '{' && (s[i+1] == '{' || s[i+1] == '%' || s[i+1] == '#') {
			return false
		}
	}
	return true
}

// vhRenderFresh renders src on a fresh engine.
func vhRenderFresh(src string, ctx map[string]interface{}) (string, error) {
	e := New()
	if err := e.RegisterString("t", src); err != nil {
		return "", err
	}
	return e.Render("t", ctx)
}

func vhRepeat(b byte, n int) string {
	bs := make([]byte, n)
	for i := range bs {
		bs[i] = b
	}
	return string(bs)
}

func vhIsWS(c byte) bool { return c == ' ' || c == '\t' || c == '\n' || c == '\r' }

func vhInSet(c byte, set string) bool {
	for i := 0; i < len(set); i++ {
		if c == set[i] {
			return true
		}
	}
	return false
}

// alphabet of context value bytes where the property under test does not depend on the bytes: upper,
// lower, digit (incl. the falsy "0"), blank, HTML specials, NUL, a 2-byte UTF-8 sequence and an invalid byte
const vhValAlphabet = "aZ0 <&\x00\xc3\xa9\xff"
