package twig

import "errors"

// C15: template cache and loaders always serve the source the configuration calls for. Public API
// only. An explicit state machine in the harness (written from the property statement) predicts,
// after every Render, which version must be served and how often each loader is read.

// template sources: version v of name n renders as "<n><v>"
func vhC15Src(name string, ver int) string { return name + []string{"0", "1", "2", "3"}[ver] }

type vhTSLoader struct { // timestamp-aware loader
	has   map[string]bool
	ver   map[string]int
	mtime map[string]int64
	loads map[string]int
}

func (l *vhTSLoader) Load(name string) (string, error) {
	l.loads[name]++
	if !l.has[name] {
		return "", ErrTemplateNotFound
	}
	return vhC15Src(name, l.ver[name]), nil
}
func (l *vhTSLoader) Exists(name string) bool { return l.has[name] }
func (l *vhTSLoader) GetModifiedTime(name string) (int64, error) {
	if !l.has[name] {
		return 0, ErrTemplateNotFound
	}
	return l.mtime[name], nil
}

type vhPlainLoader struct { // loader without timestamps
	has   map[string]bool
	ver   map[string]int
	loads map[string]int
}

func (l *vhPlainLoader) Load(name string) (string, error) {
	l.loads[name]++
	if !l.has[name] {
		return "", ErrTemplateNotFound
	}
	return vhC15Src(name, l.ver[name]), nil
}
func (l *vhPlainLoader) Exists(name string) bool { return l.has[name] }

// model of what the engine must remember per name
type vhC15Entry struct {
	present  bool
	out      string // what it renders
	from     int    // -1 registered, 0 ts loader, 1 plain loader
	mtime    int64
}

// VH_C15_Cache: two loaders (first: timestamp-aware, second: plain), two names, a history of H
// operations, every flag / has-it bit / timestamp symbolic.
func VH_C15_Cache() {
	h := symParam("H", 2)
	names := []string{"a", "b"}
	ts := &vhTSLoader{has: map[string]bool{}, ver: map[string]int{}, mtime: map[string]int64{}, loads: map[string]int{}}
	pl := &vhPlainLoader{has: map[string]bool{}, ver: map[string]int{}, loads: map[string]int{}}
	for _, n := range names {
		ts.has[n], pl.has[n] = symBool(), symBool()
		ts.ver[n], pl.ver[n] = 0, 1
		ts.mtime[n] = int64(symInt())
	}
	e := New()
	e.RegisterLoader(ts)
	e.RegisterLoader(pl)
	cache, auto := true, false // engine defaults
	model := map[string]*vhC15Entry{"a": {}, "b": {}}
	tag := ""
	for step := 0; step < h; step++ {
		op := symChoice(7)
		n := names[symChoice(2)]
		switch op {
		case 0:
			cache = symBool()
			e.SetCache(cache)
			tag += "C"
		case 1:
			auto = symBool()
			e.SetAutoReload(auto)
			tag += "A"
		case 2: // registration: the source most recently registered wins from now on
			tag += "R"
			if e.RegisterString(n, vhC15Src(n, 3)) != nil {
				symAssert(false, "registers")
				return
			}
			*model[n] = vhC15Entry{present: true, out: n + "3", from: -1}
		case 3: // content of the timestamp loader changes (mtime strictly increases) or appears
			tag += "U"
			m2 := int64(symInt())
			symAssume(m2 > ts.mtime[n])
			ts.mtime[n] = m2
			ts.has[n] = true
			ts.ver[n] = 2
		case 4: // the timestamp loader is touched without... no: unchanged content keeps its mtime; nothing to do
			tag += "-"
		case 5: // the plain loader's content changes
			tag += "P"
			pl.ver[n] = 2
			pl.has[n] = true
		case 6: // render and check
			tag += "r"
			vhC15Render(e, n, ts, pl, model, cache, auto)
		}
	}
	symTag("hist:" + tag)
	// final render of both names
	for _, n := range names {
		vhC15Render(e, n, ts, pl, model, cache, auto)
	}
	symCover("done")
}

func vhC15Render(e *Engine, n string, ts *vhTSLoader, pl *vhPlainLoader, model map[string]*vhC15Entry, cache, auto bool) {
	m := model[n]
	lt, lp := ts.loads[n], pl.loads[n]
	out, err := e.Render(n, nil)
	rt, rp := ts.loads[n]-lt, pl.loads[n]-lp
	// what must be served
	useCached := false
	if m.present {
		switch {
		case m.from == -1:
			useCached = true // a registered source stays until something is registered again
		case !cache:
			useCached = false
		case !auto:
			useCached = true
		case m.from == 0: // timestamp-aware: re-read iff changed since it was cached
			useCached = !(ts.has[n] && ts.mtime[n] > m.mtime) && ts.has[n]
		default:
			useCached = true // no way to notice a change
		}
	}
	if useCached {
		symCover("served-from-cache")
		symAssert(err == nil && out == m.out, "serves-remembered-source")
		symAssert(rt == 0 && rp == 0, "unchanged-template-not-reread")
		return
	}
	// loaders are consulted in registration order; the first that has the name wins
	switch {
	case ts.has[n]:
		symCover("loaded-from-first")
		symAssert(err == nil && out == vhC15Src(n, ts.ver[n]), "first-loader-wins-current-source")
		symAssert(rt == 1 && rp == 0, "loader-read-once-in-order")
		if cache {
			*m = vhC15Entry{present: true, out: out, from: 0, mtime: ts.mtime[n]}
		}
	case pl.has[n]:
		symCover("loaded-from-second")
		symAssert(err == nil && out == vhC15Src(n, pl.ver[n]), "second-loader-serves-current-source")
		symAssert(rt == 1 && rp == 1, "loaders-read-in-order")
		if cache {
			*m = vhC15Entry{present: true, out: out, from: 1}
		}
	default:
		symCover("not-found")
		symAssert(err != nil && errors.Is(err, ErrTemplateNotFound), "missing-name-matches-ErrTemplateNotFound")
		symAssert(out == "", "no-output")
		if cache && m.present {
			// a previously cached entry whose reload found nothing: the property does not say; leave the model as is
			m.present = false
		}
	}
}
