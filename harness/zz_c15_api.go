package twig

import (
	"errors"
	"os"
	"time"
)

// C15: template cache and loaders always serve the source the configuration calls for. Public API
// only. An explicit state machine in the harness (written from the property statement) predicts,
// after every Render, which version must be served and how often each loader is read.

// template sources: version v of name n renders as "<n><v>"
func vhC15Src(name string, ver int) string { return name + []string{"0", "1", "2", "3"}[ver] }

type vhTSLoader struct { // timestamp-aware loader
	has   map[string]bool
	ver   map[string]int
	mtime map[string]int64
	loads map[string]int
}

func (l *vhTSLoader) Load(name string) (string, error) {
	l.loads[name]++
	if !l.has[name] {
		return "", ErrTemplateNotFound
	}
	return vhC15Src(name, l.ver[name]), nil
}
func (l *vhTSLoader) Exists(name string) bool { return l.has[name] }
func (l *vhTSLoader) GetModifiedTime(name string) (int64, error) {
	if !l.has[name] {
		return 0, ErrTemplateNotFound
	}
	return l.mtime[name], nil
}

type vhPlainLoader struct { // loader without timestamps
	has   map[string]bool
	ver   map[string]int
	loads map[string]int
}

func (l *vhPlainLoader) Load(name string) (string, error) {
	l.loads[name]++
	if !l.has[name] {
		return "", ErrTemplateNotFound
	}
	return vhC15Src(name, l.ver[name]), nil
}
func (l *vhPlainLoader) Exists(name string) bool { return l.has[name] }

// model of what the engine must remember per name
type vhC15Entry struct {
	present bool
	out     string // what it renders
	from    int    // -1 registered, else index of the loader it came from
	mtime   int64
}

// a loader that is timestamp-aware or not, decided per instance
type vhC15Loader interface {
	Loader
	hasName(n string) bool
	version(n string) int
	reads(n string) int
	stamp(n string) (int64, bool) // modification time, and whether the loader is timestamp-aware
}

func (l *vhTSLoader) hasName(n string) bool           { return l.has[n] }
func (l *vhTSLoader) version(n string) int            { return l.ver[n] }
func (l *vhTSLoader) reads(n string) int              { return l.loads[n] }
func (l *vhTSLoader) stamp(n string) (int64, bool)    { return l.mtime[n], true }
func (l *vhPlainLoader) hasName(n string) bool        { return l.has[n] }
func (l *vhPlainLoader) version(n string) int         { return l.ver[n] }
func (l *vhPlainLoader) reads(n string) int           { return l.loads[n] }
func (l *vhPlainLoader) stamp(n string) (int64, bool) { return 0, false }

// VH_C15_Cache: two loaders (the first timestamp-aware, the second timestamp-aware or plain), two names,
// a history of H operations, every flag / has-it bit / timestamp symbolic.
func VH_C15_Cache() {
	h := symParam("H", 2)
	// the second name is spelled in a way a path cleaner would rewrite: names are opaque keys
	names := []string{"a", "x//a"}
	l0 := &vhTSLoader{has: map[string]bool{}, ver: map[string]int{}, mtime: map[string]int64{}, loads: map[string]int{}}
	l1ts := &vhTSLoader{has: map[string]bool{}, ver: map[string]int{}, mtime: map[string]int64{}, loads: map[string]int{}}
	l1pl := &vhPlainLoader{has: map[string]bool{}, ver: map[string]int{}, loads: map[string]int{}}
	secondTS := symBool()
	for _, n := range names {
		l0.has[n] = symBool()
		h1 := symBool()
		l1ts.has[n], l1pl.has[n] = h1, h1
		l0.ver[n], l1ts.ver[n], l1pl.ver[n] = 0, 1, 1
		l0.mtime[n] = int64(symInt())
		l1ts.mtime[n] = int64(symInt())
	}
	var loaders []vhC15Loader
	if secondTS {
		loaders = []vhC15Loader{l0, l1ts}
	} else {
		loaders = []vhC15Loader{l0, l1pl}
	}
	e := New()
	e.RegisterLoader(loaders[0])
	e.RegisterLoader(loaders[1])
	// pages that reach the names through include / extends / import: they must see what a direct render sees
	e.RegisterString("wa", "{% include 'a' %}")
	e.RegisterString("wx//a", "{% include 'x//a' %}")
	cache, auto := true, false // engine defaults
	model := map[string]*vhC15Entry{"a": {}, "x//a": {}}
	tag := ""
	prov := symParam("PROV", 0) == 1
	if prov {
		// provenance: auto-reload on, the name first only in the second (timestamp-aware) loader; the
		// first loader gains and loses byte-identical and different copies, the second is touched
		symAssume(secondTS && !l0.has["a"] && l1ts.has["a"])
		l1ts.ver["a"] = 2
		auto = true
		e.SetAutoReload(true)
	}
	for step := 0; step < h; step++ {
		op := symChoice(11)
		if prov {
			symAssume(op == 3 || op == 4 || op == 6 || op == 8 || op == 5)
		}
		n := names[symChoice(symParam("NAMES", 1))] // names touched by history operations
		if prov && op == 3 { // the first loader's copy alternates between the second loader's text and another
			tag += "U"
			m2 := int64(symInt())
			symAssume(m2 > l0.mtime[n])
			nv := 2
			if l0.has[n] && l0.ver[n] == 2 {
				nv = 0
			}
			l0.mtime[n], l0.has[n], l0.ver[n] = m2, true, nv
			continue
		}
		switch op {
		case 10: // registration of exactly the text that is being served for the name right now
			if !model[n].present {
				symAssume(false)
			}
			tag += "S"
			if e.RegisterString(n, model[n].out) != nil {
				symAssert(false, "registers")
				return
			}
			*model[n] = vhC15Entry{present: true, out: model[n].out, from: -1}
		case 9: // development mode: auto-reload on and cache off, or the reverse
			dm := symBool()
			e.SetDevelopmentMode(dm)
			auto, cache = dm, !dm
			tag += "D"
		case 0:
			cache = symBool()
			e.SetCache(cache)
			tag += "C"
		case 1:
			auto = symBool()
			e.SetAutoReload(auto)
			tag += "A"
		case 2: // registration: the source most recently registered wins from now on
			tag += "R"
			if e.RegisterString(n, vhC15Src(n, 3)) != nil {
				symAssert(false, "registers")
				return
			}
			*model[n] = vhC15Entry{present: true, out: n + "3", from: -1}
		case 3: // content of the first loader changes (mtime strictly increases) or appears
			tag += "U"
			m2 := int64(symInt())
			symAssume(m2 > l0.mtime[n])
			l0.mtime[n], l0.has[n], l0.ver[n] = m2, true, 2
		case 4: // content of the second loader changes
			tag += "V"
			if secondTS {
				m2 := int64(symInt())
				symAssume(m2 > l1ts.mtime[n])
				l1ts.mtime[n], l1ts.has[n], l1ts.ver[n] = m2, true, 2
			} else {
				l1pl.ver[n], l1pl.has[n] = 2, true
			}
		case 5: // the first loader loses the name
			tag += "x"
			l0.has[n] = false
		case 6: // the second loader loses the name
			tag += "y"
			l1ts.has[n], l1pl.has[n] = false, false
		case 7:
			tag += "-"
		case 8: // render and check
			tag += "r"
			vhC15Render(e, n, loaders, model, cache, auto)
		}
	}
	symTag("hist:" + tag)
	for _, n := range names {
		vhC15Render(e, n, loaders, model, cache, auto)
	}
	symCover("done")
}

func vhC15Render(e *Engine, n string, loaders []vhC15Loader, model map[string]*vhC15Entry, cache, auto bool) {
	vhC15Direct(e, n, loaders, model, cache, auto)
	// the same name reached through an include of a registered page, right after: same source
	out, err := e.Render(n, nil)
	wout, werr := e.Render("w"+n, nil)
	symAssert((werr == nil) == (err == nil) && wout == out, "include-serves-what-a-direct-render-serves")
}

func vhC15Direct(e *Engine, n string, loaders []vhC15Loader, model map[string]*vhC15Entry, cache, auto bool) {
	m := model[n]
	before := []int{loaders[0].reads(n), loaders[1].reads(n)}
	out, err := e.Render(n, nil)
	r0, r1 := loaders[0].reads(n)-before[0], loaders[1].reads(n)-before[1]
	// must the remembered source be served?
	useCached := false
	if m.present {
		switch {
		case m.from == -1:
			useCached = true // a registered source stays until something is registered again
		case !cache:
			useCached = false
		case !auto:
			useCached = true
		default:
			// auto-reload: re-read iff the loader it came from is timestamp-aware and reports a change
			src := loaders[m.from]
			mt, aware := src.stamp(n)
			if !aware {
				useCached = true
			} else {
				useCached = src.hasName(n) && !(mt > m.mtime)
			}
		}
	}
	if useCached {
		symCover("served-from-cache")
		symAssert(err == nil && out == m.out, "serves-remembered-source")
		symAssert(r0 == 0 && r1 == 0, "unchanged-template-not-reread")
		return
	}
	// loaders are consulted in registration order; the first that has the name wins
	switch {
	case loaders[0].hasName(n):
		symCover("loaded-from-first")
		symAssert(err == nil && out == vhC15Src(n, loaders[0].version(n)), "first-loader-wins-current-source")
		symAssert(r0 == 1 && r1 == 0, "loader-read-once-in-order")
		if cache {
			mt, _ := loaders[0].stamp(n)
			*m = vhC15Entry{present: true, out: out, from: 0, mtime: mt}
		}
	case loaders[1].hasName(n):
		symCover("loaded-from-second")
		symAssert(err == nil && out == vhC15Src(n, loaders[1].version(n)), "second-loader-serves-current-source")
		symAssert(r0 == 1 && r1 == 1, "loaders-read-in-order")
		if cache {
			mt, _ := loaders[1].stamp(n)
			*m = vhC15Entry{present: true, out: out, from: 1, mtime: mt}
		}
	default:
		symCover("not-found")
		symAssert(err != nil && errors.Is(err, ErrTemplateNotFound), "missing-name-matches-ErrTemplateNotFound")
		symAssert(out == "", "no-output")
		// "a name no loader has ... changes nothing in the cache": a previously cached entry stays as it was
	}
}

// ---- C15.files: the same through a FileSystemLoader and file modification times ---------------------
// Package os is an in-memory model inside the symbolic engine (modification times symbolic through
// os.Chtimes); natively a temporary directory is used.

func vhC15Write(path string, ver int, mtime int64) {
	os.WriteFile(path, []byte("f"+[]string{"0", "1", "2", "3", "4", "5"}[ver]+"{{ x }}"), 0644)
	t := time.Unix(mtime, 0)
	os.Chtimes(path, t, t)
}

// VH_C15_Files: one template file served by a FileSystemLoader; a history of H operations from {set
// cache, set auto-reload, rewrite the file with new content and a strictly later modification time,
// touch it (later time, same content), delete it, render-and-check}; all times symbolic.
func VH_C15_Files() {
	h := symParam("H", 3)
	dir, err := os.MkdirTemp("", "vhc15")
	if err != nil {
		panic(vhStop{"no temporary directory"})
	}
	defer os.RemoveAll(dir)
	path := dir + "/a.twig"
	mt := int64(symInt())
	symAssume(mt >= 1 && mt < 2000000000)
	ver, exists := 0, true
	vhC15Write(path, ver, mt)
	e := New()
	e.RegisterLoader(NewFileSystemLoader([]string{dir}))
	cache, auto := true, false
	var m vhC15Entry
	check := func() {
		out, err := e.Render("a", map[string]interface{}{"x": "v"})
		useCached := false
		if m.present && cache {
			if !auto {
				useCached = true
			} else {
				useCached = exists && !(mt > m.mtime)
			}
		}
		switch {
		case useCached:
			symCover("served-from-cache")
			symAssert(err == nil && out == m.out, "serves-remembered-source")
		case exists:
			symCover("loaded-from-file")
			symAssert(err == nil && out == "f"+[]string{"0", "1", "2", "3", "4", "5"}[ver]+"v", "serves-current-file")
			if cache {
				m = vhC15Entry{present: true, out: out, mtime: mt}
			}
		default:
			symCover("not-found")
			symAssert(err != nil && errors.Is(err, ErrTemplateNotFound), "missing-name-matches-ErrTemplateNotFound")
			symAssert(out == "", "no-output")
		}
	}
	tag := ""
	for step := 0; step < h; step++ {
		switch symChoice(7) {
		case 6: // development mode
			dm := symBool()
			e.SetDevelopmentMode(dm)
			auto, cache = dm, !dm
			tag += "M"
		case 0:
			cache = symBool()
			e.SetCache(cache)
			tag += "C"
		case 1:
			auto = symBool()
			e.SetAutoReload(auto)
			tag += "A"
		case 2: // new content, strictly later time
			m2 := int64(symInt())
			symAssume(m2 > mt && m2 < 2000000000)
			ver, mt, exists = ver+1, m2, true
			vhC15Write(path, ver, mt)
			tag += "W"
		case 3: // touch
			if !exists {
				symAssume(false)
			}
			m2 := int64(symInt())
			symAssume(m2 > mt && m2 < 2000000000)
			mt = m2
			t := time.Unix(mt, 0)
			os.Chtimes(path, t, t)
			tag += "T"
		case 4:
			os.Remove(path)
			exists = false
			tag += "D"
		case 5:
			check()
			tag += "r"
		}
	}
	symTag("hist:" + tag)
	check()
	symCover("done")
}
