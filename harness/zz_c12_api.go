package twig

import "strconv"

// C12: macros bind arguments positionally with defaults, alike however they are reached. Public API only.

// VH_C12_Bind: every signature with 0..3 parameters (each with or without a default), every
// argument count 0..4, symbolic argument values; parameters shadow outer variables; assignments in
// the body are invisible to the caller.
func VH_C12_Bind() {
	np := symChoice(4)
	na := symChoice(5)
	hasDef := make([]bool, np)
	sig, body := "", ""
	for i := 0; i < np; i++ {
		hasDef[i] = symBool()
		if i > 0 {
			sig += ", "
		}
		p := "p" + strconv.Itoa(i+1)
		sig += p
		if hasDef[i] {
			sig += "='D" + strconv.Itoa(i+1) + "'"
		}
		body += "{{ " + p + " }}|"
	}
	args := ""
	ctx := map[string]interface{}{}
	av := make([]string, na)
	special, skind := -1, 0
	if na > 0 {
		special, skind = symChoice(na), symChoice(7) // one argument position gets one of the 7 kinds
	}
	for j := 0; j < na; j++ {
		if j > 0 {
			args += ", "
		}
		kind := 0
		if j == special {
			kind = skind
		}
		// what is passed: a variable holding a string, the literal null, a variable holding nil, an
		// undefined variable, an empty string, zero, false - an argument that is passed binds the
		// parameter even when its value is null or falsy (the default is for omitted arguments only)
		switch kind {
		case 0:
			args += "a" + strconv.Itoa(j+1)
			av[j] = symStringIn(1, vhValAlphabet)
			ctx["a"+strconv.Itoa(j+1)] = av[j]
		case 1:
			args += "null"
			av[j] = ""
		case 2:
			args += "nilvar"
			ctx["nilvar"] = nil
			av[j] = ""
		case 3:
			args += "undefinedvar"
			av[j] = ""
		case 4:
			args += "''"
			av[j] = ""
		case 5:
			args += "0"
			av[j] = "0"
		case 6:
			args += "false"
			av[j] = "false"
		}
	}
	outerP1 := symBool() // an outer variable with the name of the first parameter
	if outerP1 {
		ctx["p1"] = "OUTER"
	}
	ctx["g"] = "G"
	src := "{% macro m(" + sig + ") %}[" + body + "g={{ g }}]{% set p1 = 'X' %}{% set leak = 'L' %}{% endmacro %}" +
		"{{ m(" + args + ") }}<{{ p1 }}|{{ leak }}>{{ m(" + args + ") }}"
	out, err := vhR(src, ctx)
	symCover("rendered")
	symAssert(err == nil, "renders")
	want := "["
	for i := 0; i < np; i++ {
		switch {
		case i < na:
			want += av[i]
		case hasDef[i]:
			want += "D" + strconv.Itoa(i+1)
		}
		want += "|"
	}
	want += "g=G]" // outer variables stay visible inside the macro unless a parameter shadows them
	caller := "<|>"
	if outerP1 {
		caller = "<OUTER|>"
	}
	symAssert(out == want+caller+want, "positional-binding-with-defaults")
}

var vhC12Lib = "{% macro m(p, q='D', r) %}[{{ p }}|{{ q }}|{{ r }}]{% endmacro %}{% macro two(a) %}<{{ _self.m(a, 'Q') }}>{% endmacro %}"

// call forms: %A is the argument list
var vhC12Forms = []struct{ pre, call string }{
	{"LIB", "{{ m(%A) }}"},
	{"LIB", "{{ _self.m(%A) }}"},
	{"{% import 'lib' as l %}", "{{ l.m(%A) }}"},
	{"{% from 'lib' import m %}", "{{ m(%A) }}"},
	{"{% from 'lib' import m as g %}", "{{ g(%A) }}"},
	{"{% from 'lib' import two, m as g %}", "{{ g(%A) }}"},
}

var vhC12Sites = []string{
	"%C",
	"{% for i in [1] %}%C{% endfor %}",
	"{% block b %}%C{% endblock %}",
	"{% if true %}%C{% endif %}",
	"{% set cap %}x{% endset %}%C",
}

// VH_C12_Forms: the same macro gives the same output through every call form and call site.
func VH_C12_Forms() {
	f := symChoice(len(vhC12Forms))
	s := symChoice(len(vhC12Sites) - 1) // the capture form of set is not supported by the engine
	na := symChoice(4)
	args := ""
	ctx := map[string]interface{}{}
	av := []string{"", "D", ""}
	for j := 0; j < na; j++ {
		if j > 0 {
			args += ", "
		}
		args += "a" + strconv.Itoa(j+1)
		v := symStringIn(1, vhValAlphabet)
		ctx["a"+strconv.Itoa(j+1)] = v
		av[j] = v
	}
	// the macro's name: an ordinary one, or one that is also the name of a built-in function, of a
	// function or filter the application registered, of a test, or a keyword-like word
	mname := []string{"m", "max", "min", "range", "length", "userfn", "upper", "defined", "block", "date"}[symChoice(10)]
	symTag("macro-name:" + mname)
	rename := func(t string) string {
		t = vhReplace(t, " m(", " "+mname+"(")
		t = vhReplace(t, ".m(", "."+mname+"(")
		t = vhReplace(t, "import m ", "import "+mname+" ")
		t = vhReplace(t, "import m%", "import "+mname+"%")
		t = vhReplace(t, ", m as", ", "+mname+" as")
		return t
	}
	lib := rename(vhC12Lib)
	form := vhC12Forms[f]
	pre := form.pre
	if pre == "LIB" {
		pre = lib
	} else {
		pre = rename(vhReplace(pre, " %}", "% %}"))
		pre = vhReplace(pre, "% %}", " %}")
	}
	main := pre + vhReplace(vhC12Sites[s], "%C", vhReplace(rename(form.call), "%A", args))
	e := New()
	e.AddFunction("userfn", func(a ...interface{}) (interface{}, error) { return "FUNCTION", nil })
	e.RegisterString("lib", lib)
	if err := e.RegisterString("main", main); err != nil {
		symAssert(false, "template-parses")
		return
	}
	out, err := e.Render("main", ctx)
	symCover("rendered")
	symAssert(err == nil, "renders")
	symAssert(out == "["+av[0]+"|"+av[1]+"|"+av[2]+"]", "same-output-through-every-form")
}

// value positions for a macro call: %E is the call expression, %O the expected rendering of the macro
var vhC12Uses = []struct{ tpl, want string }{
	{"{{ 'x' ~ %E ~ 'y' }}", "x%Oy"},
	{"{{ %E|default('zz') }}", "%O"},
	{"{{ [%E, 'k']|join('-') }}", "%O-k"},
	{"{% set s = %E %}{{ s }}{{ s }}", "%O%O"},
	{"{{ %E ~ %E }}", "%O%O"},
	{"{% if %E == %E %}eq{% else %}ne{% endif %}", "eq"},
	{"{{ (%E)|raw }}", "%O"},
	{"{% for c in [%E] %}{{ loop.index }}{{ c }}{% endfor %}", "1%O"},
	{"{{ {'k': %E}['k'] }}", "%O"},
	{"{{ %E is same_as(%E) ? 'same' : 'other' }}", "same"},
}

// VH_C12_Value: the value of a macro call is what the macro renders, wherever the call is written:
// concatenated, filtered, assigned, compared, collected, through every call form.
func VH_C12_Value() {
	f := symChoice(len(vhC12Forms))
	u := symChoice(len(vhC12Uses))
	na := 1 + symChoice(2)
	args := ""
	ctx := map[string]interface{}{}
	av := []string{"", "D", ""}
	for j := 0; j < na; j++ {
		if j > 0 {
			args += ", "
		}
		args += "a" + strconv.Itoa(j+1)
		v := symStringIn(1, vhValAlphabet)
		ctx["a"+strconv.Itoa(j+1)] = v
		av[j] = v
	}
	form := vhC12Forms[f]
	pre := form.pre
	if pre == "LIB" {
		pre = vhC12Lib
	}
	call := vhReplace(form.call, "%A", args)
	call = call[3 : len(call)-3] // without the print delimiters
	symTag("call:" + call + " use:" + vhC12Uses[u].tpl)
	e := New()
	e.RegisterString("lib", vhC12Lib)
	if err := e.RegisterString("main", pre+vhReplace(vhC12Uses[u].tpl, "%E", call)); err != nil {
		symAssert(false, "template-parses")
		return
	}
	out, err := e.Render("main", ctx)
	symCover("rendered")
	symAssert(err == nil, "renders")
	symAssert(out == vhReplace(vhC12Uses[u].want, "%O", "["+av[0]+"|"+av[1]+"|"+av[2]+"]"), "call-value-is-the-rendered-body")
}

// literal arguments as written in a template and the value they denote
var vhC12Lits = []struct{ src, val string }{
	{`'plain'`, "plain"}, {`'it\'s'`, "it's"}, {`"q\"r"`, "q\"r"}, {`'a\\b'`, "a\\b"}, {`'n\nz'`, "n\nz"}, {`"t\tz"`, "t\tz"},
	{`12`, "12"}, {`1.5`, "1.5"}, {`'x' ~ 'y'`, "xy"}, {`('p')`, "p"}, {`''`, ""}, {`'a,b'`, "a,b"}, {`'a)b'`, "a)b"}, {`"#{1}"`, "#{1}"},
}

// VH_C12_Literals: literal arguments (quoted strings with escapes, numbers, small expressions) denote
// the same value through every call form, in first and in second position.
func VH_C12_Literals() {
	f := symChoice(len(vhC12Forms))
	l1 := symChoice(len(vhC12Lits))
	l2 := symChoice(len(vhC12Lits))
	second := symBool()
	args, want := vhC12Lits[l1].src, "["+vhC12Lits[l1].val+"|D|]"
	if second {
		args, want = vhC12Lits[l1].src+", "+vhC12Lits[l2].src, "["+vhC12Lits[l1].val+"|"+vhC12Lits[l2].val+"|]"
	} else {
		symAssume(l2 == 0)
	}
	form := vhC12Forms[f]
	pre := form.pre
	if pre == "LIB" {
		pre = vhC12Lib
	}
	symTag("call:" + vhReplace(form.call, "%A", args))
	e := New()
	e.RegisterString("lib", vhC12Lib)
	if err := e.RegisterString("main", pre+vhReplace(form.call, "%A", args)); err != nil {
		symAssert(false, "template-parses")
		return
	}
	out, err := e.Render("main", nil)
	symCover("rendered")
	symAssert(err == nil, "renders")
	symAssert(out == want, "literal-argument-same-through-every-form")
}

// VH_C12_Nested: macros calling macros, from an included template and from another library.
func VH_C12_Nested() {
	v := symStringIn(1, vhValAlphabet)
	k := symChoice(9)
	e := New()
	e.RegisterString("lib", vhC12Lib)
	e.RegisterString("lib3", "{% macro m(p) %}THEIRS{% endmacro %}")
	e.RegisterString("lib4", "{% macro m(p, q='D', r) %}[{{ p }}|{{ q }}|{{ r }}]{% endmacro %}{% macro two(a) %}<{{ m(a, 'Q') }}>{% endmacro %}")
	e.RegisterString("lib2", "{% macro wrap(x) %}{% import 'lib' as l %}({{ l.m(x) }}){% endmacro %}")
	e.RegisterString("inc", "{% import 'lib' as l %}{{ l.m(v, v) }}")
	main := []string{
		"{% import 'lib' as l %}{{ l.two(v) }}",
		"{% import 'lib2' as w %}{{ w.wrap(v) }}",
		"{% include 'inc' %}",
		"{% from 'lib' import two %}{% for i in [1, 2] %}{{ two(v) }}{% endfor %}",
		// the calling template has macros of its own with the names the library uses: a macro body
		// resolves names in the template that defines it, whoever calls it
		"{% macro m(p) %}MINE{% endmacro %}{% import 'lib' as l %}{{ l.two(v) }}",
		"{% macro m(p) %}MINE{% endmacro %}{% from 'lib' import two %}{{ two(v) }}",
		"{% from 'lib3' import m %}{% import 'lib' as l %}{{ l.two(v) }}",
		"{% macro m(p) %}MINE{% endmacro %}{% macro two(a) %}MINE2{% endmacro %}{% import 'lib4' as l %}{{ l.two(v) }}",
		"{% macro m(p) %}MINE{% endmacro %}{% import 'lib4' as l %}{{ l.two(v) }}{{ m(v) }}",
	}[k]
	symTag("variant:" + string(rune('0'+k)))
	q := "<[" + v + "|Q|]>"
	want := []string{q, "([" + v + "|D|])", "[" + v + "|" + v + "|]", q + q, q, q, q, q, q + "MINE"}[k]
	if e.RegisterString("main", main) != nil {
		symAssert(false, "template-parses")
		return
	}
	out, err := e.Render("main", map[string]interface{}{"v": v})
	symCover("rendered")
	symAssert(err == nil, "renders")
	symAssert(out == want, "nested-macro-calls")
}

// ---- C12.defaults: a default expression is evaluated at every call that omits the argument ----------

// VH_C12_Defaults: a macro whose defaults are expressions over a variable of the calling template
// (b = t ~ '!', c = t|upper, d = t == 'x' ? 'T' : 'F') is called K times in a row (through an import,
// through from-import, in a loop, in an if), each call with a symbolic number of supplied arguments and
// the variable t re-assigned before it; the page is rendered twice with different values: every call
// shows the values its own arguments and the defaults, evaluated at that call, give.
func VH_C12_Defaults() {
	k := symParam("K", 3)
	e := New()
	e.RegisterString("lib", "{% macro m(a, b = t ~ '!', c = t|upper, d = t == 'x' ? 'T' : 'F') %}[{{ a }}|{{ b }}|{{ c }}|{{ d }}]{% endmacro %}")
	forms := []string{"{{ l.m(%A) }}", "{{ g(%A) }}", "{% for q in [1] %}{{ l.m(%A) }}{% endfor %}", "{% if true %}{{ g(%A) }}{% endif %}"}
	src := "{% import 'lib' as l %}{% from 'lib' import m as g %}"
	nargs := make([]int, k)
	for i := 0; i < k; i++ {
		nargs[i] = 1 + symChoice(4)
		args := []string{"'A'", "'B'", "'C'", "'D'"}[:nargs[i]]
		src += "{% set t = t" + strconv.Itoa(i) + " %}" + vhReplace(forms[symChoice(len(forms))], "%A", vhJoin(args, ", "))
	}
	if e.RegisterString("page", src) != nil {
		symAssert(false, "template-parses")
		return
	}
	for round := 0; round < 2; round++ {
		ctx := map[string]interface{}{}
		want := ""
		for i := 0; i < k; i++ {
			t := symStringIn(1, "xy")
			ctx["t"+strconv.Itoa(i)] = t
			b, c, d := t+"!", vhUpperASCII(t), "F"
			if t == "x" {
				d = "T"
			}
			if nargs[i] >= 2 {
				b = "B"
			}
			if nargs[i] >= 3 {
				c = "C"
			}
			if nargs[i] >= 4 {
				d = "D"
			}
			want += "[A|" + b + "|" + c + "|" + d + "]"
		}
		out, err := e.Render("page", ctx)
		symAssert(err == nil, "renders")
		symAssert(out == want, "defaults-evaluated-at-each-call")
	}
	symCover("rendered")
}

// ---- C12.body: a macro call renders the macro's body ---------------------------------------------------

var vhC12Bodies = []string{
	"w {{ p }} x",
	"w \\{{ p }} x{{ p }}",
	"w \\{% if p %} x{{ q }}",
	"{# {{ p }} #}c{{ q }}",
	"{% verbatim %}{{ p }}{% endverbatim %}|{{ p }}",
	"a{{ '{{ p }}' }}b{{ p }}",
	"{% if p %}[{{ p }}]{% else %}none{% endif %}{{ q|upper }}",
	"{% for i in [p, q] %}{{ loop.index }}{{ i }}{% endfor %}",
	"{{ p ~ '}}' ~ q }}",
	"<a href=\"{{ p }}\">{{ q }}</a> {{ p }}{{ q }}",
	"{{ p }}{{ p }}\n{{ q }}\t{{ q }}",
}

// VH_C12_Body: for 11 bodies (plain text with prints, backslash-escaped openers, comments, verbatim,
// delimiters inside string literals, control structures, adjacent prints, line breaks) the macro called
// with two symbolic arguments renders exactly what the body renders as a template of its own with the
// parameters as context, through a direct call, _self, import and from-import.
func VH_C12_Body() {
	b := symChoice(len(vhC12Bodies))
	symTag("body:" + vhC12Bodies[b])
	pv, qv := symStringIn(1, "ab0"), symStringIn(1, "xy")
	form := symChoice(4)
	e := New()
	e.RegisterString("body", vhC12Bodies[b])
	lib := "{% macro m(p, q) %}" + vhC12Bodies[b] + "{% endmacro %}"
	e.RegisterString("lib", lib)
	main := []string{lib + "{{ m(a1, a2) }}", lib + "{{ _self.m(a1, a2) }}", "{% import 'lib' as l %}{{ l.m(a1, a2) }}", "{% from 'lib' import m as g %}{{ g(a1, a2) }}"}[form]
	if e.RegisterString("main", main) != nil {
		symAssert(false, "template-parses")
		return
	}
	want, werr := e.Render("body", map[string]interface{}{"p": pv, "q": qv})
	out, err := e.Render("main", map[string]interface{}{"a1": pv, "a2": qv})
	symCover("rendered")
	symAssert(werr == nil && err == nil, "renders")
	symAssert(out == want, "macro-renders-its-body")
}
