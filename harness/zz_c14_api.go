package twig

// C14 through the public API only: padding a template with literal text beyond the engine's
// internal size threshold changes the output by exactly that text.

func vhPadRender(src string, x string) (string, error) {
	return vhRenderFresh(src, map[string]interface{}{"x": x, "a": "A"})
}

func VH_C14_Threshold() {
	n := symChoice(symParam("N", 4) + 1)
	s := symString(n)
	pad := vhRepeat('a', symParam("PAD", 4097))
	x := symString(1)
	where := symChoice(2)
	o0, e0 := vhPadRender(s, x)
	var o1 string
	var e1 error
	if where == 0 {
		// s must not end inside an opener that the pad would complete: the pad is 'a's, so only
		// a trailing unterminated tag could swallow it; that case changes acceptance for both.
		o1, e1 = vhPadRender(pad+s, x)
	} else {
		o1, e1 = vhPadRender(s+pad, x)
	}
	symCover("rendered-both")
	if e0 == nil {
		symAssert(e1 == nil, "padding-keeps-acceptance")
		if e1 == nil {
			symCover("both-ok")
			if where == 0 {
				symAssert(o1 == pad+o0, "pad-before-only-adds-pad")
			} else {
				symAssert(o1 == o0+pad, "pad-after-only-adds-pad")
			}
		}
	}
}
