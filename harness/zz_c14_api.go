package twig

import "runtime"

// C14 through the public API only: padding a template with literal text beyond the engine's
// internal size threshold changes the output by exactly that text.

func vhPadRender(src string, x string) (string, error) {
	return vhRenderFresh(src, map[string]interface{}{"x": x, "a": "A"})
}

func VH_C14_Threshold() {
	n := symChoice(symParam("N", 4) + 1)
	s := symString(n)
	padLen := symParam("PAD", 4097)
	if symParam("PADSET", 0) == 1 {
		// sizes around the tokenizer switch and the buffer / pool size classes
		padLen = []int{4095, 4096, 4097, 8193, 16385, 32769, 65537, 131073, 300001}[symChoice(symParam("PADS", 9))]
	}
	pad := vhRepeat('a', padLen)
	if symParam("PADSET", 0) == 1 {
		// the padding may end in a multi-byte character, which then lies across the size boundary
		mark := []string{"", "\xc3\xa9", "\xe2\x82\xac", "\xf0\x9d\x84\x9e"}[symChoice(4)]
		pad = vhRepeat('a', padLen-len(mark)) + mark
	}
	x := symString(1)
	where := symChoice(2)
	o0, e0 := vhPadRender(s, x)
	var o1 string
	var e1 error
	if where == 0 {
		// s must not end inside an opener that the pad would complete: the pad is 'a's, so only
		// a trailing unterminated tag could swallow it; that case changes acceptance for both.
		o1, e1 = vhPadRender(pad+s, x)
	} else {
		o1, e1 = vhPadRender(s+pad, x)
	}
	symCover("rendered-both")
	if e0 == nil {
		symAssert(e1 == nil, "padding-keeps-acceptance")
		if e1 == nil {
			symCover("both-ok")
			if where == 0 {
				symAssert(o1 == pad+o0, "pad-before-only-adds-pad")
			} else {
				symAssert(o1 == o0+pad, "pad-after-only-adds-pad")
			}
		}
	}
}

// ---- C14.tokens: the number of tags in a template does not change what the rest of it means -----------

func vhRepeatStr(s string, n int) string {
	out := ""
	for i := 0; i < n; i++ {
		out += s
	}
	return out
}

// VH_C14_Tokens: a construct with whitespace-control dashes (5 of the C13 constructs, every dash
// subset, whitespace on both sides of every text piece) is rendered alone and with k tags in front
// and m tags behind that contribute nothing (comments, or prints of an undefined variable); k ranges
// over PADLO..PADLO+PADN-1 (around the sizes at which internal token storage grows), m over {0, PADAFTER}.
// The padded template renders exactly as the unpadded one.
func VH_C14_Tokens() {
	tp := []vhTpl{vhC13Corpus[0], vhC13Corpus[1], vhC13Corpus[4], vhC13Corpus[6], vhC13Corpus[16]}[symChoice(5)]
	nt := len(tp.tags)
	dl := make([]bool, nt)
	dr := make([]bool, nt)
	for i := range tp.tags {
		dl[i], dr[i] = symBool(), symBool()
	}
	wls := make([]string, nt+1)
	wrs := make([]string, nt+1)
	for i := 0; i <= nt; i++ {
		wls[i], wrs[i] = " \n", "\t "
	}
	src, _ := vhC13Build(tp, dl, dr, wls, wrs)
	k := symParam("PADLO", 83) + symChoice(symParam("PADN", 5))
	m := 0
	if symBool() {
		m = symParam("PADAFTER", 100)
	}
	unit := "{# c #}"
	if symBool() {
		unit = "{{ zz }}"
	}
	symTag("tpl:" + tp.name)
	ctx := map[string]interface{}{"x": "V", "n": 0, "xs": []interface{}{"p", "q"}}
	// pooled tokenizers keep the token storage earlier templates made them grow: start from empty pools
	runtime.GC()
	runtime.GC()
	o0, e0 := vhRenderFresh(src, ctx)
	o1, e1 := vhRenderFresh(vhRepeatStr(unit, k)+src+vhRepeatStr(unit, m), ctx)
	symCover("rendered")
	symAssert(e0 == nil, "renders")
	symAssert((e0 == nil) == (e1 == nil), "padding-keeps-acceptance")
	symAssert(o1 == o0, "padding-with-tags-changes-nothing")
}

// ---- C14.comments: comments may be inserted anywhere between constructs -----------------------------

// VH_C14_Comments: a template cut into pieces at construct boundaries (text with apostrophes and
// quotes, prints with string literals, an if block) gets two comments inserted at symbolically chosen
// boundaries; the comment bodies are symbolic (up to N bytes over {a, ', ", #, }, {, %, blank}, not
// containing the comment terminator). The output is that of the template without the comments.
func VH_C14_Comments() {
	pieces := [][]string{
		{"It's ", "{{ x }}", "'s \"own\" ", "{{ 'a' ~ x }}", " end"},
		{"", "{% if x %}", "don't", "{% endif %}", "\"", "{{ x }}", "'"},
		{"a", "{{ x }}", "b"},
	}[symChoice(3)]
	n := symParam("N", 3)
	mk := func() string {
		c := symStringIn(symChoice(n+1), "a'\"#}{% ")
		for i := 0; i+1 < len(c); i++ {
			symAssume(!(c[i] == '#' && c[i+1] == '}'))
		}
		if len(c) > 0 {
			symAssume(c[len(c)-1] != '#')
		}
		return "{#" + c + "#}"
	}
	c1, c2 := mk(), mk()
	p1, p2 := symChoice(len(pieces)+1), symChoice(len(pieces)+1)
	base, with := "", ""
	for i := 0; i <= len(pieces); i++ {
		if i == p1 {
			with += c1
		}
		if i == p2 {
			with += c2
		}
		if i < len(pieces) {
			base += pieces[i]
			with += pieces[i]
		}
	}
	x := symStringIn(1, "ab")
	ctx := map[string]interface{}{"x": x}
	o0, e0 := vhRenderFresh(base, ctx)
	o1, e1 := vhRenderFresh(with, ctx)
	symCover("rendered")
	symAssert(e0 == nil, "renders")
	symAssert(e1 == nil, "comments-keep-acceptance")
	symAssert(o1 == o0, "comments-change-nothing")
}
