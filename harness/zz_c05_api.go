package twig

// C05: no template source or context value makes the engine panic or hang. Public API only.
// These obligations run with "-panics report": every Go panic on any path is a violation.

// VH_C05_Parse: every source of up to N bytes parses to a template or an error, and what parses
// renders to output or an error.
func VH_C05_Parse() {
	n := symChoice(symParam("N", 5) + 1)
	s := symString(n)
	e := New()
	err := e.RegisterString("t", s)
	symCover("parsed")
	if err != nil {
		return
	}
	symCover("accepted")
	_, _ = e.Render("t", map[string]interface{}{"x": "v", "a": []interface{}{"p"}})
	symCover("rendered")
}

// VH_C05_ParseBig: the same above the tokenizer threshold (4097 bytes of literal padding in front).
func VH_C05_ParseBig() {
	n := symChoice(symParam("N", 4) + 1)
	s := vhRepeat('a', 4097) + symString(n)
	e := New()
	err := e.RegisterString("t", s)
	symCover("parsed")
	if err != nil {
		return
	}
	_, _ = e.Render("t", map[string]interface{}{"x": "v"})
	symCover("rendered")
}

var vhC05TagNames = []string{"if", "elseif", "else", "endif", "for", "endfor", "set", "do", "block", "endblock", "extends", "include",
	"import", "from", "macro", "endmacro", "apply", "endapply", "verbatim", "endverbatim", "spaceless", "endspaceless", "nosuchtag"}

var vhC05Tails = []string{"", "x{% endif %}", "{% else %}{% endfor %}", "{% endblock %}{% endmacro %}", "{% endapply %}"}

// VH_C05_Tags: {% NAME <B> %} TAIL with every tag name, a symbolic body of up to N bytes from a
// syntax-heavy alphabet and 5 tails: deeper into the block parsers than free bytes reach.
func VH_C05_Tags() {
	k := symChoice(len(vhC05TagNames))
	b := symStringIn(symChoice(symParam("N", 2)+1), "x ='(|.[0")
	t := symChoice(len(vhC05Tails))
	src := "{% " + vhC05TagNames[k] + " " + b + " %}" + vhC05Tails[t]
	e := New()
	e.RegisterString("inc", "i")
	err := e.RegisterString("t", src)
	symCover("parsed")
	if err != nil {
		return
	}
	symCover("accepted")
	_, _ = e.Render("t", map[string]interface{}{"x": "v"})
}

type vhS struct {
	A    string
	B    int
	C    []interface{}
	priv int
}

func (s vhS) M() string   { return "m" }
func (s *vhS) P() string  { return "p" }
func (s vhS) N(i int) int { return i }

var vhC05Shapes = []string{"chan", "chan-sendonly", "chan-recvonly", "chan-nil", "func", "uintptr", "ptr-int", "struct-chan", "embed", "embed-nilptr", "ptr-embed-nilptr", "biglist-maps", "biglist", "ifacemap", "floatmap", "nil", "bool", "int", "int64", "float", "string", "list", "strings", "ints", "array", "map", "map-int", "intmap", "struct", "ptr", "nilptr", "nested", "emptylist", "emptymap"}

func vhC05Value(k int) interface{} {
	switch vhC05Shapes[k] {
	case "chan":
		c := make(chan int, 3)
		c <- 1
		c <- 2
		return c
	case "chan-sendonly":
		c := make(chan string, 2)
		c <- "s"
		var so chan<- string = c
		return so
	case "chan-recvonly":
		c := make(chan string, 2)
		c <- "r"
		close(c)
		var ro <-chan string = c
		return ro
	case "chan-nil":
		var c chan int
		return c
	case "func":
		return func() string { return "f" }
	case "uintptr":
		return uintptr(5)
	case "ptr-int":
		i := 7
		return &i
	case "struct-chan":
		return struct {
			C chan int
			F func()
			N *int
		}{make(chan int, 1), nil, nil}
	case "embed":
		return vhOuterT{vhInnerT: vhInnerT{Promoted: "p"}, vhDeepT: &vhDeepT{Deep: "d"}, Name: "n"}
	case "embed-nilptr":
		return vhOuterT{Name: "n"}
	case "ptr-embed-nilptr":
		return &vhOuterT{Name: "n"}
	case "biglist-maps":
		// longer than every internal size threshold (50, 64), holding unhashable elements
		xs := make([]interface{}, 70)
		for i := range xs {
			xs[i] = map[string]interface{}{"k": i}
		}
		return xs
	case "biglist":
		xs := make([]interface{}, 70)
		for i := range xs {
			xs[i] = i
		}
		return xs
	case "ifacemap":
		return map[interface{}]interface{}{1: "a", "b": 2, 2.5: nil}
	case "floatmap":
		return map[float64]string{0.5: "a", 1.5: "b"}
	case "nil":
		return nil
	case "bool":
		return symBool()
	case "int":
		i := symInt()
		symAssume(i >= -2 && i <= 2)
		return i
	case "int64":
		if symBool() {
			return []int64{9223372036854775807, -9223372036854775808}[symChoice(2)]
		}
		i := symInt()
		symAssume(i >= -1 && i <= 1)
		return int64(i)
	case "float":
		return 1.5
	case "string":
		return symStringIn(symChoice(3), "a1 ,<\xc3")
	case "list":
		return []interface{}{symStringIn(1, "a1"), 2, nil}
	case "strings":
		return []string{"b", symStringIn(1, "a1")}
	case "ints":
		return []int{3, 1, 2}
	case "array":
		return [2]int{1, 2}
	case "map":
		return map[string]interface{}{"a": symStringIn(1, "a1"), "b": 2}
	case "map-int":
		return map[string]int{"a": 1, "b": 2}
	case "intmap":
		return map[int]string{1: "x", 2: "y"}
	case "struct":
		return vhS{A: "a", B: 1, C: []interface{}{1}}
	case "ptr":
		return &vhS{A: "a", B: 1}
	case "nilptr":
		return (*vhS)(nil)
	case "nested":
		return []interface{}{[]interface{}{1, "a"}, map[string]interface{}{"a": []interface{}{}}}
	case "emptylist":
		return []interface{}{}
	case "emptymap":
		return map[string]interface{}{}
	}
	return nil
}

var vhC05Tpl = []string{
	"{{ v.Deep }}", "{{ v.Promoted }}", "{{ v.Name }}", "{{ v.InnerMethod }}", "{{ v.vhDeepT }}", "{{ [1] in v }}", "{{ {'k': 1} in v }}", "{{ v in v }}", "{{ 69 in v }}", "{{ v[i]|length }}", "{{ v|first|keys|first }}",
	"{{ v }}", "{{ v.a }}", "{{ v.A }}", "{{ v.M }}", "{{ v.P }}", "{{ v.N }}", "{{ v.priv }}", "{{ v[0] }}", "{{ v['a'] }}", "{{ v[u] }}", "{{ v[i] }}", "{{ v.a.b }}", "{{ v[0][0] }}",
	"{{ v|length }}", "{{ v|first }}", "{{ v|last }}", "{{ v|join(',') }}", "{{ v|keys|join(',') }}", "{{ v|merge([1]) |length }}", "{{ v|merge({'k': 1})|length }}",
	"{{ v|sort|join(',') }}", "{{ v|reverse|length }}", "{{ v|slice(I, J)|length }}", "{{ v|slice(I)|length }}", "{{ v|upper }}", "{{ v|lower }}", "{{ v|capitalize }}", "{{ v|title }}", "{{ v|trim }}",
	"{{ v + 1 }}", "{{ v - i }}", "{{ v * 2 }}", "{{ v / i }}", "{{ v % i }}", "{{ v ~ 'x' }}", "{{ v == 1 }}", "{{ v < 1 }}", "{{ v >= i }}", "{{ 1 in v }}", "{{ 'a' in v }}", "{{ v in [1, 'a'] }}", "{{ not v }}", "{{ -v }}",
	"{{ v is empty }}", "{{ v is iterable }}", "{{ v is defined }}", "{{ v is even }}", "{{ v is divisible_by(i) }}", "{{ v is same_as(1) }}", "{{ v starts with 'a' }}", "{{ v ends with 'a' }}",
	"{% for k, x in v %}{{ k }}{{ x }}{{ loop.index }}{% else %}E{% endfor %}", "{% for x in v|slice(0, 1) %}{{ x }}{% endfor %}", "{% if v %}T{% endif %}", "{% set w = v %}{{ w }}",
	"{{ v|default('d') }}", "{{ v|abs }}", "{{ v|round }}", "{{ v|round(i) }}", "{{ v|number_format }}", "{{ v|number_format(i) }}", "{{ v|e }}", "{{ v|striptags }}", "{{ v|split(',')|length }}", "{{ v|split(',', I)|length }}", "{{ v|replace({'a': 'b'}) }}",
	"{{ v|url_encode }}", "{{ v|raw }}", "{{ v|format(1) }}", "{{ v|spaceless }}", "{{ max(v) }}", "{{ min(v, 1) }}", "{{ max(v, v) }}", "{{ cycle(v, I) }}", "{{ cycle([1, 2], v) }}", "{{ v ? 1 : 2 }}",
	"{{ [v, v]|length }}", "{{ {'k': v}|length }}", "{{ v|first|first }}", "{{ v|last|length }}", "{{ v|keys|first }}", "{{ v|join(v) }}", "{{ v|merge(v)|length }}", "{{ dump(v) }}", "{{ v|length|abs }}",
	"{% include v ignore missing %}", "{% include 'inc' with {'q': v} only %}", "{% extends v %}", "{% import v as m %}", "{{ include(v) }}", "{{ constant(v) }}", "{{ v matches '/a/' }}",
}

// templates that fail in the middle of a sub-render (C05.failures)
var vhC05Fail = []string{
	"{% include 'inc' with {'q': v|boom} %}", "{% include 'inc' with {'a': 1, 'q': v[i][j]} only %}", "{% for x in v %}{% include 'inc' with {'q': x|boom} %}{% endfor %}",
	"{{ include('inc', {'q': v|boom}) }}", "{% include 'failing' with {'q': v} %}", "{% include 'failing' %}{% include 'inc' %}",
	"{% import 'lib' as l %}{{ l.m(v|boom) }}", "{% import 'lib' as l %}{{ l.f(v) }}", "{% from 'lib' import f %}{{ f(v) }}{{ f(v) }}", "{% extends 'failing-base' %}{% block b %}{{ v|boom }}{% endblock %}",
	"{% apply upper %}{{ v|boom }}{% endapply %}", "{% spaceless %}{{ v|boom }}{% endspaceless %}", "{% for x in v %}{% for y in v %}{{ y|boom }}{% endfor %}{% endfor %}",
	"{% if v|boom %}{% endif %}", "{% block b %}{{ v|boom }}{% endblock %}", "{% macro k(a) %}{{ a|boom }}{% endmacro %}{{ k(v) }}{{ _self.k(v) }}",
}

// VH_C05_Render: every template of the corpus on every value shape, with symbolic integer arguments.
func VH_C05_Render() { vhC05Run(vhC05Tpl, len(vhC05Shapes)) }

// VH_C05_Failures: a render that fails while a sub-render (include, embed, macro call, parent
// template, loop, apply, capture) is prepared or under way leaves no trace: no panic, and a render
// four contexts deep works afterwards. Value shapes: the first 7 and list/string/nil.
func VH_C05_Failures() { vhC05Run(vhC05Fail, -1) }

func vhC05Run(tpls []string, nshapes int) {
	t := symParam("T", -1)
	if t < 0 {
		t = symChoice(len(tpls))
	}
	vhC05Tpl := tpls
	var k int
	if nshapes < 0 {
		k = []int{15, 20, 21, 25}[symChoice(4)]
	} else {
		k = symChoice(nshapes)
	}
	symTag("tpl:" + vhC05Tpl[t])
	symTag("shape:" + vhC05Shapes[k])
	v := vhC05Value(k)
	// i, j: small integers (they take part in float arithmetic, which the engine enumerates);
	// I, J: arbitrary 64-bit integers, used where the engine keeps them integers (indexing, slicing, cycling)
	i, j := symInt(), symInt()
	symAssume(i >= -2 && i <= 2)
	symAssume(j >= -2 && j <= 2)
	bi, bj := symInt(), symInt()
	e := New()
	e.AddFilter("boom", func(v interface{}, a ...interface{}) (interface{}, error) { return nil, vhErrBoom })
	e.RegisterString("inc", "i{{ q }}")
	e.RegisterString("failing", "f{{ q|boom }}")
	e.RegisterString("failing-base", "{{ q|boom }}{% block b %}{% endblock %}")
	e.RegisterString("lib", "{% macro m(a) %}{{ a }}{% endmacro %}{% macro f(a) %}{{ a|boom }}{% endmacro %}")
	e.RegisterString("deep3", "{% macro w(a) %}{% include 'inc' with {'q': a} %}{% endmacro %}{{ w(q) }}")
	e.RegisterString("deep2", "{% for z in [1] %}{% include 'deep3' %}{% endfor %}")
	e.RegisterString("deep1", "{% include 'deep2' %}|{% include 'deep2' with {'q': 'R'} %}")
	err := e.RegisterString("t", vhC05Tpl[t])
	if err != nil {
		symCover("rejected-at-parse") // an error is an acceptable answer for C05
		return
	}
	_, rerr := e.Render("t", map[string]interface{}{"v": v, "i": i, "j": j, "I": bi, "J": bj})
	symCover("rendered")
	if rerr != nil {
		symCover("render-failed")
	}
	// the engine stays usable: a render four contexts deep (include, loop, include, macro, include)
	out, err := e.Render("deep1", map[string]interface{}{"q": "Q"})
	symAssert(err == nil && out == "iQ|iR", "engine-usable-afterwards")
}

// VH_C05_Range: range() terminates and has the right number of elements: whenever the mathematical
// number of elements is small (1..3) the call returns within the unwinding bound, for every start, end
// and step in the 64-bit range (in particular next to the integer limits, where i += step would wrap).
func VH_C05_Range() {
	start, end, step := symInt(), symInt(), symInt()
	symAssume(step != 0)
	var dist, st uint64 // distance from start to end and |step| as unsigned numbers: exact for all ints
	if step > 0 {
		symAssume(end >= start)
		dist, st = uint64(end)-uint64(start), uint64(step)
	} else {
		symAssume(end <= start)
		dist, st = uint64(start)-uint64(end), -uint64(step)
	}
	q := symChoice(3) // number of elements - 1 = floor(dist/st), stated without division
	switch q {
	case 0:
		symAssume(dist < st)
	case 1:
		symAssume(dist >= st)
		symAssume(dist-st < st)
	case 2:
		symAssume(dist >= st)
		symAssume(dist-st >= st)
		symAssume(dist-st-st < st)
	}
	out, err := vhR("{{ range(a, b, c)|length }}", map[string]interface{}{"a": start, "b": end, "c": step})
	symCover("returned")
	symAssert(err == nil, "no-error")
	symAssert(out == []string{"1", "2", "3"}[q], "element-count")
}

// ---- C05.args: context values in argument positions of filters, functions, tests and operators -----
var vhC05ArgTpl = []string{
	"{{ 'a,b-c'|split(v) }}", "{{ 'a,b-c'|split(v, w) }}", "{{ 'a,b'|split(',', v) }}", "{{ 'abab'|replace(v, w) }}", "{{ ' ab '|trim(v) }}", "{{ 'ab'|trim(v, w) }}",
	"{{ '2024-03-05'|date(v) }}", "{{ '2024-03-05'|date(v, w) }}", "{{ v|date('Y') }}", "{{ 'ab' matches v }}", "{{ v matches w }}", "{{ 'a%sb'|format(v) }}", "{{ v|format(w, w) }}",
	"{{ 'abc'|slice(v, w) }}", "{{ [1, 2, 3]|slice(v, w)|length }}", "{{ [1, 2]|join(v) }}", "{{ [1, 2]|join(v, w) }}", "{{ 1234.5|number_format(v, w, w) }}", "{{ 12.5|round(v) }}", "{{ 12.5|round(v, w) }}",
	"{{ range(v, 3)|length }}", "{{ range(1, v)|length }}", "{{ range(1, 3, v)|length }}", "{{ range('a', v)|length }}",
	"{{ 'a'|default(v) }}", "{{ max(v, w) }}", "{{ min([v, w]) }}", "{{ cycle([1, 2], v) }}", "{{ 'a b'|title|striptags(v) }}", "{{ 'a'|url_encode(v) }}", "{{ 'a'|e(v) }}", "{{ 'a'|escape(v) }}",
	"{{ 5 is divisible_by(v) }}", "{{ 'a' is same_as(v) }}", "{{ 'ab' starts with v }}", "{{ 'ab' ends with v }}", "{{ 'a' in v }}", "{{ v in 'ab' }}", "{{ 5 % v }}", "{{ 5 / v }}",
	"{{ [3, 1]|sort(v)|length }}", "{{ [1, 2]|reverse(v)|length }}", "{{ {'a': 1}|merge(v)|length }}", "{{ [1]|merge(v)|length }}", "{{ 'ab'|first(v) }}", "{{ [1, 2]|column(v)|length }}", "{{ 'a'|nl2br(v) }}",
	"{{ 'x'|length(v) }}", "{{ include(v, w) }}", "{{ 'a'|convert_encoding(v, w) }}", "{{ 'a'|capitalize(v) }}", "{{ 'a'|upper(v) }}", "{{ v[w] }}", "{{ 'abc'[v] }}", "{{ [1, 2][v] }}", "{{ v ? w : v }}", "{{ v ?: w }}", "{{ v ?? w }}",
	// both operands of a comparison with the same (possibly uncomparable) shape; drawn numbers with arbitrary bounds
	"{{ v is same_as(v) }}", "{{ v is same_as([w, 2]) }}", "{{ [v] is same_as([v]) }}", "{{ {'a': v} is same_as({'a': 1}) }}", "{{ v == v }}", "{{ [v] == [w] }}", "{{ v in [v] }}", "{{ [v] in [[v]] }}",
	"{{ random(v) }}", "{{ random(v, w) }}", "{{ random(w, v) }}", "{{ random() }}", "{{ v is divisible_by(w) }}", "{{ v // w }}", "{{ v ** w }}", "{{ v b-and w }}",
	// interface-keyed and typed maps indexed by any shape (lists and hashes cannot be keys); integer subjects of number_format with any number of decimals
	"{{ im[v] }}", "{{ im[[v]] }}", "{{ im[{'k': v}] }}", "{{ tm[v] }}", "{{ v in im }}", "{{ [v] in im }}", "{{ im[v][w] }}", "{{ 5|number_format(v) }}", "{{ 5|number_format(v, w) }}", "{{ v|number_format(w) }}", "{{ -7|number_format(v, '.', w) }}",
}

func vhC05Arg(nshapes int, small bool) (interface{}, string) {
	switch symChoice(nshapes) {
	case 0:
		return symStringIn(symChoice(3), "a-%[\\,\xc3\xff"), "string"
	case 1:
		if small {
			return []int{0, 1, -1, 3}[symChoice(4)], "int"
		}
		return []int{0, 1, -1, 3, 9223372036854775807, -9223372036854775808}[symChoice(6)], "int"
	case 2:
		return nil, "nil"
	case 3:
		return []interface{}{symStringIn(1, "a-["), 2}, "list"
	case 4:
		if small {
			return []float64{0, -0.5, 2.5}[symChoice(3)], "float"
		}
		return []float64{0, -0.5, 1e300, 2.5}[symChoice(4)], "float"
	}
	return map[string]interface{}{"a": 1}, "map"
}

// VH_C05_Args: every template of the argument corpus with every pair of value shapes for v and w.
func VH_C05_Args() {
	t := symParam("T", -1)
	if t < 0 {
		t = symChoice(len(vhC05ArgTpl))
	}
	symTag("tpl:" + vhC05ArgTpl[t])
	// range() allocates what it is asked for: huge requests are resource use, not a hang (outside)
	small := len(vhC05ArgTpl[t]) > 8 && vhC05ArgTpl[t][:8] == "{{ range"
	v, sv := vhC05Arg(6, small)
	w, sw := vhC05Arg(3, small)
	symTag("v:" + sv + " w:" + sw)
	e := New()
	e.RegisterString("inc", "i{{ q }}")
	if e.RegisterString("t", vhC05ArgTpl[t]) != nil {
		symCover("rejected-at-parse")
		return
	}
	_, _ = e.Render("t", map[string]interface{}{"v": v, "w": w, "im": map[interface{}]interface{}{1: "one", "a": "A"}, "tm": map[string]int{"a": 1}})
	symCover("rendered")
	out, err := e.Render("inc", map[string]interface{}{"q": "Q"})
	symAssert(err == nil && out == "iQ", "engine-usable-afterwards")
}
