package twig

import "strconv"

// C07: the escape filter neutralises every HTML-significant character. Public API only.

// vhUnescape is the reference decoder for exactly the five character references; it fails on any
// raw < > " ' and on any & that does not start one of them.
func vhUnescape(s string) (string, bool) {
	out := []byte{}
	for i := 0; i < len(s); {
		c := s[i]
		if c == '<' || c == '>' || c == '"' || c == '\'' {
			return "", false
		}
		if c != '&' {
			out = append(out, c)
			i++
			continue
		}
		refs := []struct {
			r string
			b byte
		}{{"&amp;", '&'}, {"&lt;", '<'}, {"&gt;", '>'}, {"&#34;", '"'}, {"&#39;", '\''}, {"&quot;", '"'}, {"&#x27;", '\''}, {"&apos;", '\''}}
		ok := false
		for _, r := range refs {
			if len(s)-i >= len(r.r) && s[i:i+len(r.r)] == r.r {
				out = append(out, r.b)
				i += len(r.r)
				ok = true
				break
			}
		}
		if !ok {
			return "", false
		}
	}
	return string(out), true
}

// positions in which the filter can be applied; %F is replaced by the filter name
var vhC07Pos = []struct{ main, inc string }{
	{"{{ v|%F }}", ""},
	{"{{ v|lower|upper|lower|%F }}", ""}, // identity chain on lower-case-free input is not assumed: see oracle
	{"{% apply %F %}{{ v }}{% endapply %}", ""},
	{"{% macro m(a) %}{{ a|%F }}{% endmacro %}{{ m(v) }}", ""},
	{"{% include 'inc' %}", "{{ v|%F }}"},
	{"{% for i in [v] %}{{ i|%F }}{% endfor %}", ""},
	{"{% set w = v|%F %}{{ w }}", ""},
	{"{% if true %}{{ v|%F }}{% endif %}", ""},
	// the filter at the end of a chain that starts from an undefined name or a missing attribute
	{"{{ nosuch|default(v)|%F }}", ""},
	{"{{ v.nosuch|default(v)|%F }}", ""},
	{"{{ nosuch|default(v)|trim('')|%F }}", ""},
}

func vhSubst(s, name string) string {
	out := ""
	for i := 0; i < len(s); i++ {
		if s[i] == '%' && i+1 < len(s) && s[i+1] == 'F' {
			out += name
			i++
		} else {
			out += string(s[i : i+1])
		}
	}
	return out
}

// strict-variables mode of the engines of the current run
var vhC07Strict bool

func vhC07Render(pos int, name string, v interface{}) (string, error) {
	e := New()
	e.SetStrictVars(vhC07Strict)
	if vhC07Pos[pos].inc != "" {
		if err := e.RegisterString("inc", vhSubst(vhC07Pos[pos].inc, name)); err != nil {
			return "", err
		}
	}
	if err := e.RegisterString("t", vhSubst(vhC07Pos[pos].main, name)); err != nil {
		return "", err
	}
	return e.Render("t", map[string]interface{}{"v": v})
}

// VH_C07_Escape: for every string v (|v| <= N, every byte value) and both filter names, in the
// plain print position: no raw special, decodes back to v.
func VH_C07_Escape() {
	n := symChoice(symParam("N", 4) + 1)
	v := symString(n)
	name := "escape"
	if symBool() {
		name = "e"
	}
	out, err := vhC07Render(0, name, v)
	symCover("rendered")
	symAssert(err == nil, "no-error")
	back, ok := vhUnescape(out)
	symAssert(ok, "no-raw-specials")
	symAssert(back == v, "decodes-back")
}

// VH_C07_Positions: every position in which a filter can be applied gives the same bytes as the
// plain print position, for both names.
func VH_C07_Positions() {
	vhC07Strict = symBool()
	n := symChoice(symParam("N", 2) + 1)
	v := symString(n)
	pos := 1 + symChoice(len(vhC07Pos)-1)
	symTag("pos:" + vhC07Pos[pos].main)
	name := "escape"
	if symBool() {
		name = "e"
	}
	if pos == 1 {
		// the lower/upper chain must not change v: restrict v to bytes without case
		for i := 0; i < n; i++ {
			symAssume(v[i] < 'A' || (v[i] > 'Z' && v[i] < 'a') || (v[i] > 'z' && v[i] < 0x80))
		}
	}
	ref, rerr := vhC07Render(0, "escape", v)
	out, err := vhC07Render(pos, name, v)
	symCover("rendered")
	symAssert(rerr == nil && err == nil, "no-error")
	symAssert(out == ref, "same-in-every-position")
	back, ok := vhUnescape(out)
	symAssert(ok && back == v, "decodes-back")
}

type vhStringer struct{ s string }

func (s vhStringer) String() string { return s.s }

const vhC07Sp = "a<>&\"'"

// named non-string types that print as arbitrary text
var vhC07Text string

type vhOpInt int
type vhOpBool bool
type vhOpFloat float64
type vhOpUint8 uint8
type vhNamedStr string
type vhErrT struct{ s string }
type vhFieldT struct {
	A string
	B int
}

func (vhOpInt) String() string   { return vhC07Text }
func (vhOpBool) String() string  { return vhC07Text }
func (vhOpFloat) String() string { return vhC07Text }
func (vhOpUint8) String() string { return vhC07Text }
func (e vhErrT) Error() string   { return e.s }

// VH_C07_NonString: values that are converted to text first.
func VH_C07_NonString() {
	var v interface{}
	want := ""
	viaRaw := false
	shape := symParam("S", -1)
	if shape < 0 {
		shape = symChoice(16)
	}
	symTag("shape:" + strconv.Itoa(shape))
	switch shape {
	case 6, 7, 8, 9:
		s := symString(symChoice(3))
		vhC07Text = s
		v = []interface{}{vhOpInt(3), vhOpBool(true), vhOpFloat(1.5), vhOpUint8(7)}[symChoice(4)]
		want = s
	case 10:
		s := symString(symChoice(3))
		v, want = vhNamedStr(s), s
	case 11:
		s := symString(symChoice(3))
		v, want = vhErrT{s}, s
	case 12:
		s := symString(symChoice(3))
		v, want = &vhStringer{s}, s
	case 13:
		v, viaRaw = []string{symString(symChoice(3)), "b"}, true
	case 14:
		v, viaRaw = map[string]string{"k": symString(symChoice(3))}, true
	case 15:
		v, viaRaw = vhFieldT{symString(symChoice(3)), 1}, true
	case 0:
		i := symInt()
		symAssume(i > -100000 && i < 100000)
		v, want = i, strconv.Itoa(i)
	case 1:
		b := symBool()
		v = b
		if b {
			want = "true"
		} else {
			want = "false"
		}
	case 2:
		v, want = nil, ""
	case 3:
		v, want = 1.5, "1.5"
	case 4:
		s := symString(symChoice(3))
		v, want = []byte(s), s
	case 5:
		s := symString(symChoice(3))
		v, want = vhStringer{s}, s
	}
	name := "escape"
	if symBool() {
		name = "e"
	}
	if viaRaw {
		// composite values: the text is whatever the raw print position gives
		w, werr := vhC07Render(0, "raw", v)
		symAssume(werr == nil)
		want = w
	}
	out, err := vhC07Render(0, name, v)
	symCover("rendered")
	symAssert(err == nil, "no-error")
	back, ok := vhUnescape(out)
	symAssert(ok, "no-raw-specials")
	symAssert(back == want, "decodes-back-to-text")
}

// VH_C07_Long: a symbolic piece of up to N bytes inside long text (lengths around chunk and buffer sizes
// in front of it, 0 or 40 bytes behind): no raw special, decodes back.
func VH_C07_Long() {
	n := symChoice(symParam("N", 2) + 1)
	pre := []int{7, 8, 15, 16, 31, 32, 63, 64, 255, 256, 1023, 4096, 70001}[symChoice(13)]
	post := []int{0, 40}[symChoice(2)]
	v := vhRepeat('a', pre) + symString(n) + vhRepeat('z', post)
	name := "escape"
	if symBool() {
		name = "e"
	}
	out, err := vhC07Render(0, name, v)
	symCover("rendered")
	symAssert(err == nil, "no-error")
	back, ok := vhUnescape(out)
	symAssert(ok, "no-raw-specials")
	symAssert(back == v, "decodes-back")
}

// VH_C07_Args: the filter called with an argument (a strategy name as Twig has them, an unknown word, a
// symbolic byte, a number): whatever the argument means to the engine, the output contains no raw special.
func VH_C07_Args() {
	n := symChoice(symParam("N", 2) + 1)
	v := symString(n)
	arg := []string{"'html'", "'js'", "'css'", "'url'", "'html_attr'", "'nosuch'", "''", "a", "1", "true", "'html', 'UTF-8'"}[symChoice(11)]
	symTag("arg:" + arg)
	name := "escape"
	if symBool() {
		name = "e"
	}
	e := New()
	if e.RegisterString("t", "{{ v|"+name+"("+arg+") }}") != nil {
		symCover("rejected-at-parse")
		return
	}
	out, err := e.Render("t", map[string]interface{}{"v": v, "a": symStringIn(1, "hju<")})
	symCover("rendered")
	if err != nil {
		return // refusing an argument is an answer
	}
	_, ok := vhUnescape(out)
	symAssert(ok, "no-raw-specials")
}
