package twig

// In-package part of the C02 harness: lets native repetitions of an interleaving witness start from
// cold process-wide caches, as every symbolic path does.
func init() {
	vhColdCaches = func() {
		attributeCache.Lock()
		attributeCache.m = make(map[attributeCacheKey]attributeCacheEntry)
		attributeCache.currSize = 0
		attributeCache.Unlock()
	}
}
