package twig

import "strconv"

// C19: built-in filters satisfy their defining equations. Public API only: every filter is applied
// inside a template and observed through Render.

func vhR(src string, ctx map[string]interface{}) (string, error) { return vhRenderFresh(src, ctx) }

// reference for Twig's slice(start, length) on a sequence of n elements -> [lo, hi)
func vhRefSlice(n, start int, hasLen bool, length int) (int, int) {
	if start < 0 {
		if start < -n {
			start = 0
		} else {
			start = n + start
		}
	}
	if start > n {
		start = n
	}
	end := n
	if hasLen {
		if length >= 0 {
			if length < n-start {
				end = start + length
			}
		} else {
			if length < -n {
				end = start
			} else {
				end = n + length
				if end < start {
					end = start
				}
			}
		}
	}
	return start, end
}

var vhC19Strs = []string{"", "a", "ab", "abc", "abcd", "abcde", "abcdef"}

// VH_C19_Slice: slice(start, length) with both arguments arbitrary 64-bit integers, on strings,
// multi-byte strings and lists.
func VH_C19_Slice() {
	n := symChoice(symParam("N", 4) + 1)
	start := symInt()
	hasLen := symBool()
	length := 0
	if hasLen {
		length = symInt()
	}
	lo, hi := vhRefSlice(n, start, hasLen, length)
	kind := symChoice(3)
	ctx := map[string]interface{}{"a": start, "b": length}
	var src, want string
	call := "slice(a)"
	if hasLen {
		call = "slice(a, b)"
	}
	switch kind {
	case 0:
		symTag("string")
		ctx["v"] = vhC19Strs[n]
		src = "{{ v|" + call + " }}"
		want = vhC19Strs[n][lo:hi]
	case 1:
		symTag("multibyte-string")
		runes := []rune("héλ𝄞yz")[:n]
		ctx["v"] = string(runes)
		src = "{{ v|" + call + " }}"
		want = string(runes[lo:hi])
	case 2:
		symTag("list")
		xs := make([]interface{}, n)
		for i := range xs {
			xs[i] = vhC19Strs[6][i : i+1]
		}
		ctx["v"] = xs
		src = "{{ v|" + call + "|join('') }}"
		want = vhC19Strs[n][lo:hi]
	}
	out, err := vhR(src, ctx)
	symCover("rendered")
	symAssert(err == nil, "no-error")
	symAssert(out == want, "twig-slice-rules")
}

func vhList(n int, alphabet string) ([]interface{}, []string) {
	xs := make([]interface{}, n)
	ss := make([]string, n)
	for i := range xs {
		ss[i] = symStringIn(1, alphabet)
		xs[i] = ss[i]
	}
	return xs, ss
}

func vhJoin(ss []string, sep string) string {
	out := ""
	for i, s := range ss {
		if i > 0 {
			out += sep
		}
		out += s
	}
	return out
}

// VH_C19_Reverse: reverse is a length-preserving involution on lists and strings.
func VH_C19_Reverse() {
	n := symChoice(symParam("N", 4) + 1)
	xs, ss := vhList(n, "abz09 ")
	rev := make([]string, n)
	for i := range ss {
		rev[n-1-i] = ss[i]
	}
	ctx := map[string]interface{}{"xs": xs, "s": vhJoin(ss, ""), "m": "hé𝄞y"}
	out, err := vhR("{{ xs|reverse|join(',') }}|{{ xs|reverse|reverse|join(',') }}|{{ xs|reverse|length }}|{{ s|reverse }}|{{ s|reverse|reverse }}|{{ m|reverse }}", ctx)
	symCover("rendered")
	symAssert(err == nil, "no-error")
	want := vhJoin(rev, ",") + "|" + vhJoin(ss, ",") + "|" + strconv.Itoa(n) + "|" + vhJoin(rev, "") + "|" + vhJoin(ss, "") + "|y𝄞éh"
	symAssert(out == want, "reverse-involution")
}

// VH_C19_Sort: sort returns an ordered permutation of its input.
func VH_C19_Sort() {
	n := symChoice(symParam("N", 4) + 1)
	xs, ss := vhList(n, "abcAB019")
	out, err := vhR("{{ xs|sort|join('') }}|{{ xs|join('') }}", map[string]interface{}{"xs": xs})
	symCover("rendered")
	symAssert(err == nil, "no-error")
	symAssert(len(out) == 2*n+1, "length-kept")
	if len(out) != 2*n+1 {
		return
	}
	sorted := out[:n]
	symAssert(out[n+1:] == vhJoin(ss, ""), "input-untouched")
	for i := 0; i+1 < n; i++ {
		symAssert(sorted[i] <= sorted[i+1], "ordered")
	}
	// permutation: every byte value occurs equally often (alphabet of 8 bytes)
	for _, c := range []byte("abcAB019") {
		a, b := 0, 0
		for i := 0; i < n; i++ {
			if sorted[i] == c {
				a++
			}
			if ss[i][0] == c {
				b++
			}
		}
		symAssert(a == b, "permutation")
	}
}

// VH_C19_Length: length equals the number of elements that first, last, slice and a for loop observe.
func VH_C19_Length() {
	n := symChoice(symParam("N", 4) + 1)
	xs, ss := vhList(n, "abz")
	kind := symChoice(3)
	var v interface{}
	switch kind {
	case 0:
		symTag("list")
		v = xs
	case 1:
		symTag("string")
		v = vhJoin(ss, "")
	case 2:
		symTag("typed-slice")
		v = ss
	}
	out, err := vhR("{{ v|length }}|{{ v|first }}|{{ v|last }}|{% for i in v %}{{ i }}{% endfor %}|{% for i in v|slice(0, 99) %}{{ i }}{% endfor %}", map[string]interface{}{"v": v})
	symCover("rendered")
	symAssert(err == nil, "no-error")
	first, last := "", ""
	if n > 0 {
		first, last = ss[0], ss[n-1]
	}
	all := vhJoin(ss, "")
	symAssert(out == strconv.Itoa(n)+"|"+first+"|"+last+"|"+all+"|"+all, "length-first-last-for-agree")
}

// VH_C19_LengthMB: the same on multi-byte strings (concrete, all prefixes).
func VH_C19_LengthMB() {
	runes := []rune("hé𝄞λy")
	n := symChoice(len(runes) + 1)
	s := string(runes[:n])
	out, err := vhR("{{ v|length }}|{{ v|first }}|{{ v|last }}|{% for i in v %}{{ i }},{% endfor %}", map[string]interface{}{"v": s})
	symCover("rendered")
	symAssert(err == nil, "no-error")
	first, last, all := "", "", ""
	if n > 0 {
		first, last = string(runes[0]), string(runes[n-1])
	}
	for _, r := range runes[:n] {
		all += string(r) + ","
	}
	symAssert(out == strconv.Itoa(n)+"|"+first+"|"+last+"|"+all, "multibyte-length-first-last-for-agree")
}

// VH_C19_Idem: upper, lower, trim and capitalize are idempotent.
func VH_C19_Idem() {
	n := symChoice(symParam("N", 3) + 1)
	s := symStringIn(n, "aZ 9\t-\xc3\xa9")
	f := []string{"upper", "lower", "trim", "capitalize"}[symChoice(4)]
	symTag(f)
	out, err := vhR("{{ s|"+f+"|raw }}\x00{{ s|"+f+"|"+f+"|raw }}", map[string]interface{}{"s": s})
	symCover("rendered")
	symAssert(err == nil, "no-error")
	k := -1
	for i := 0; i < len(out); i++ {
		if out[i] == 0 {
			k = i
			break
		}
	}
	symAssert(k >= 0, "separator-present")
	if k >= 0 {
		symAssert(out[:k] == out[k+1:], "idempotent")
	}
}

// VH_C19_JoinSplit: join followed by split with the same separator restores a list of
// separator-free strings.
func VH_C19_JoinSplit() {
	n := 1 + symChoice(symParam("N", 3))
	xs, ss := vhList(n, "ab ,;")
	ks := symChoice(3)
	sep := []string{",", ";", ", "}[ks]
	if ks == 2 {
		symTag("multi-char-separator")
	}
	for _, s := range ss {
		symAssume(s[0] != sep[0] && (len(sep) < 2 || s[0] != sep[1]))
	}
	out, err := vhR("{% for p in xs|join(sep)|split(sep) %}[{{ p }}]{% endfor %}|{{ xs|join(sep)|split(sep)|length }}", map[string]interface{}{"xs": xs, "sep": sep})
	symCover("rendered")
	symAssert(err == nil, "no-error")
	want := ""
	for _, s := range ss {
		want += "[" + s + "]"
	}
	symAssert(out == want+"|"+strconv.Itoa(n), "join-split-roundtrip")
}

// VH_C19_Default: default replaces exactly the empty and undefined values: the clear cases by a
// fixed table, and for every value "replaced" coincides with the engine's own `is empty` test.
func VH_C19_Default() {
	var v interface{}
	defined := true
	table := 0 // 0: unspecified by the table, 1: must be replaced, 2: must be kept
	switch symChoice(8) {
	case 0:
		defined, table = false, 1
	case 1:
		v, table = nil, 1
	case 2:
		s := symStringIn(symChoice(2), "a0 ")
		v = s
		if s == "" {
			table = 1
		} else {
			table = 2
		}
	case 3:
		b := symBool()
		v = b
		if b {
			table = 2
		}
	case 4:
		i := symInt()
		symAssume(i >= -1 && i <= 1)
		v = i
		if i != 0 {
			table = 2
		}
	case 5:
		n := symChoice(2)
		v = make([]interface{}, n)
		table = 2 - n + n*0
		if n == 0 {
			table = 1
		} else {
			table = 2
		}
	case 6:
		m := map[string]interface{}{}
		table = 1
		if symBool() {
			m["k"] = 1
			table = 2
		}
		v = m
	case 7:
		v, table = 1.5, 2
	}
	ctx := map[string]interface{}{}
	if defined {
		ctx["v"] = v
	}
	out, err := vhR("{% if v|default('D') == 'D' %}R{% else %}K{% endif %}{% if v is empty %}E{% else %}N{% endif %}", ctx)
	symCover("rendered")
	symAssert(err == nil, "no-error")
	symAssert(len(out) == 2, "two-marks")
	if len(out) != 2 {
		return
	}
	if table == 1 {
		symAssert(out[0] == 'R', "default-replaces-empty-and-undefined")
	}
	if table == 2 {
		symAssert(out[0] == 'K', "default-keeps-non-empty")
	}
	if defined {
		symAssert((out[0] == 'R') == (out[1] == 'E'), "default-agrees-with-empty-test")
	}
}

// VH_C19_MergeKeys: merge concatenates lists and lets later maps win; keys lists every key once.
func VH_C19_MergeKeys() {
	na, nb := symChoice(3), symChoice(3)
	a, sa := vhList(na, "ab")
	b, sb := vhList(nb, "ab")
	keys := []string{"k1", "k2", "k3"}
	ma := map[string]interface{}{}
	mb := map[string]interface{}{}
	want := map[string]string{}
	for _, k := range keys {
		if symBool() {
			ma[k] = "A"
			want[k] = "A"
		}
	}
	for _, k := range keys {
		if symBool() {
			mb[k] = "B"
			want[k] = "B"
		}
	}
	out, err := vhR("{{ a|merge(b)|join('') }}|{{ a|merge(b)|length }}|{% set m = ma|merge(mb) %}{{ m|length }}:{{ m.k1 }}{{ m.k2 }}{{ m.k3 }}|{{ m|keys|sort|join(',') }}|{{ m|keys|length }}",
		map[string]interface{}{"a": a, "b": b, "ma": ma, "mb": mb})
	symCover("rendered")
	symAssert(err == nil, "no-error")
	wk := []string{}
	for _, k := range keys {
		if _, ok := want[k]; ok {
			wk = append(wk, k)
		}
	}
	w := vhJoin(sa, "") + vhJoin(sb, "") + "|" + strconv.Itoa(na+nb) + "|" + strconv.Itoa(len(want)) + ":" + want["k1"] + want["k2"] + want["k3"] + "|" + vhJoin(wk, ",") + "|" + strconv.Itoa(len(wk))
	symAssert(out == w, "merge-keys")
}

// VH_C19_Num: abs and round on integers, number_format on small integers agree with exact arithmetic.
func VH_C19_Num() {
	i := symInt()
	if symBool() {
		symAssume(i >= -120 && i <= 120)
	} else {
		i = []int{999, 1000, 1001, -999, -1000, -1001, 12345, -54321}[symChoice(8)]
	}
	out, err := vhR("{{ i|abs }}|{{ i|round }}|{{ i|number_format }}|{{ i|number_format(0, '.', ' ') }}|{{ i|number_format(d) }}|{{ i|number_format(2, ';') }}", map[string]interface{}{"i": i, "d": []int{-1, -3, 0}[symChoice(3)]})
	symCover("rendered")
	symAssert(err == nil, "no-error")
	a := i
	if a < 0 {
		a = -a
	}
	nf := func(sep string) string {
		s := strconv.Itoa(a)
		if a >= 1000 {
			s = s[:len(s)-3] + sep + s[len(s)-3:]
		}
		if i < 0 {
			s = "-" + s
		}
		return s
	}
	// a negative number of decimals means none; two decimals of an integer are zeros
	symAssert(out == strconv.Itoa(a)+"|"+strconv.Itoa(i)+"|"+nf(",")+"|"+nf(" ")+"|"+nf(",")+"|"+nf(",")+";00", "abs-round-number_format")
}

// VH_C19_RoundPrec: round with a precision and a method on integers from the context agrees with
// exact integer arithmetic (tens, hundreds: floor / ceil / half away from zero; a non-negative
// precision leaves an integer as it is). A result of zero may print as "-0" (the float sign of a
// negative input rounded to zero, as in PHP); it is read as 0.
func VH_C19_RoundPrec() {
	i := symInt()
	if symBool() {
		symAssume(i >= -140 && i <= 140)
	} else {
		i = []int{1250, -1250, 1350, -1350, 999, -999, 1001, -1001, 12345, -54321, 5, -5, 50, -50, 9007199254740, -9007199254740}[symChoice(16)]
	}
	pi := symChoice(4)
	p := []int{-1, -2, 1, -3}[pi]
	unit := []int{10, 100, 1, 1000}[pi]
	out, err := vhR("{{ i|round(p) }}|{{ i|round(p, 'common') }}|{{ i|round(p, 'ceil') }}|{{ i|round(p, 'floor') }}", map[string]interface{}{"i": i, "p": p})
	symCover("rendered")
	symAssert(err == nil, "no-error")
	fdiv := func(a, b int) int {
		q := a / b
		if a%b != 0 && (a < 0) != (b < 0) {
			q--
		}
		return q
	}
	fl, ce := fdiv(i, unit)*unit, -fdiv(-i, unit)*unit
	a := i
	if a < 0 {
		a = -a
	}
	co := (a + unit/2) / unit * unit
	if i < 0 {
		co = -co
	}
	if p > 0 {
		fl, ce, co = i, i, i
	}
	out = "|" + out + "|"
	out = vhReplace(vhReplace(out, "|-0|", "|0|"), "|-0|", "|0|")
	symAssert(out == "|"+strconv.Itoa(co)+"|"+strconv.Itoa(co)+"|"+strconv.Itoa(ce)+"|"+strconv.Itoa(fl)+"|", "round-precision-exact-on-integers")
}

// ---- C19.split: what split returns is made of the input --------------------------------------------
var vhC19Runes = []string{"a", "b", "\xc3\xa9", ",", "-", "^", "]", " "}
var vhC19Seps = []string{",", "\xc3\xa9", "\xc3\xa9,", ",\xc3\xa9", ", ", "^-", "]a", ",-\xc3\xa9", "a-b"}

// vhDeletion: is out obtainable from s by deleting only whole characters that occur in sep?
func vhDeletion(s []string, out string, sep string) bool {
	j := 0
	for _, r := range s {
		if len(out)-j >= len(r) && out[j:j+len(r)] == r {
			j += len(r)
			continue
		}
		in := false
		for k := 0; k+len(r) <= len(sep); k++ {
			if sep[k:k+len(r)] == r {
				in = true
			}
		}
		if !in {
			return false
		}
	}
	return j == len(out)
}

// VH_C19_Split: s is a sequence of up to N characters (ASCII letters, a two-byte letter, punctuation
// with a meaning in regular expressions), split at one of 9 separators with and without a limit. The
// parts concatenated are s with nothing but whole separator characters removed (no character is cut
// in half, nothing that is not part of the separator disappears); with a single-character separator
// the number of parts is one more than its number of occurrences; a part never contains it.
func VH_C19_Split() {
	n := symChoice(symParam("N", 3) + 1)
	rs := make([]string, n)
	s := ""
	for i := range rs {
		rs[i] = vhC19Runes[symChoice(len(vhC19Runes))]
		s += rs[i]
	}
	k := symChoice(len(vhC19Seps))
	sep := vhC19Seps[k]
	symTag("sep:" + sep)
	limited := symBool()
	src := "{{ s|split(sep)|join('') }}|{{ s|split(sep)|length }}|{% for p in s|split(sep) %}{% if sep in p %}BAD{% endif %}{% endfor %}"
	if limited {
		src = "{{ s|split(sep, 2)|join('') }}|{{ s|split(sep, 2)|length }}|"
	}
	out, err := vhR(src, map[string]interface{}{"s": s, "sep": sep})
	symCover("rendered")
	symAssert(err == nil, "no-error")
	if err != nil {
		return
	}
	// out = concat | count | flags
	bar2 := len(out) - 1
	for bar2 >= 0 && out[bar2] != '|' {
		bar2--
	}
	bar1 := bar2 - 1
	for bar1 >= 0 && out[bar1] != '|' {
		bar1--
	}
	if bar1 < 0 {
		symAssert(false, "output-shape")
		return
	}
	concat, count, flags := out[:bar1], out[bar1+1:bar2], out[bar2+1:]
	symAssert(vhDeletion(rs, concat, sep), "parts-are-the-input-minus-separator-characters")
	if k < 2 {
		occ := 0
		for _, r := range rs {
			if r == sep {
				occ++
			}
		}
		want := occ + 1
		if limited && want > 2 {
			want = 2
		}
		symAssert(count == strconv.Itoa(want), "part-count")
		symAssert(flags == "", "no-part-contains-the-separator")
	}
}

// ---- C19.chain: the equations hold at every position of a filter chain and on every use --------------

// VH_C19_Chain: reverse and sort applied after a filter that hands its input on (default, raw, first of
// a list of lists, last, merge with nothing, slice of everything) or in a for sequence, twice in one
// template and once more in a second render of the same data: every application is the equation applied
// to the original list, and the list itself still prints as it was.
func VH_C19_Chain() {
	n := 1 + symChoice(symParam("N", 3))
	xs, ss := vhList(n, "abc")
	rev := make([]string, n)
	for i := range ss {
		rev[n-1-i] = ss[i]
	}
	sorted := append([]string{}, ss...)
	for i := 0; i < n; i++ {
		for j := i + 1; j < n; j++ {
			if sorted[j] < sorted[i] {
				sorted[i], sorted[j] = sorted[j], sorted[i]
			}
		}
	}
	pre := []string{"xs|default([])", "xs|raw", "nest|first", "nest|last", "xs|merge([])", "xs|slice(0)", "nosuch|default(xs)", "holder.items", "xs|default([])|raw"}
	p := symChoice(len(pre))
	symTag("prefix:" + pre[p])
	sortOp := symBool()
	op, want := "reverse", vhJoin(rev, ",")
	if sortOp {
		op, want = "sort", vhJoin(sorted, ",")
	}
	e := New()
	src := "{{ " + pre[p] + "|" + op + "|join(',') }};{{ " + pre[p] + "|" + op + "|join(',') }};{% for v in " + pre[p] + "|" + op + " %}{{ v }},{% endfor %};{{ xs|join(',') }};{{ (" + pre[p] + "|" + op + ")|first }}"
	if e.RegisterString("t", src) != nil {
		symAssert(false, "template-parses")
		return
	}
	ctx := map[string]interface{}{"xs": xs, "nest": []interface{}{xs, xs}, "holder": map[string]interface{}{"items": xs}}
	first := rev[0]
	if sortOp {
		first = sorted[0]
	}
	expect := want + ";" + want + ";" + want + ",;" + vhJoin(ss, ",") + ";" + first
	o1, e1 := e.Render("t", ctx)
	o2, e2 := e.Render("t", ctx)
	symCover("rendered")
	symAssert(e1 == nil && e2 == nil, "no-error")
	symAssert(o1 == expect, "equation-holds-in-a-chain")
	symAssert(o2 == expect, "equation-holds-on-the-second-render")
}

// VH_C19_ReverseRunes: strings of up to N characters from {a, é, combining acute U+0301, combining
// diaeresis U+0308, a 4-byte rune, ZWJ U+200D, an invalid byte}: reverse puts the characters in the
// opposite order (whatever they are: combining marks and joiners are characters like any other), keeps
// the length, and applied twice gives the input back.
func VH_C19_ReverseRunes() {
	n := symChoice(symParam("N", 3) + 1)
	runes := []string{"a", "\xc3\xa9", "\xcc\x81", "\xcc\x88", "\xf0\x9d\x84\x9e", "\xe2\x80\x8d", "z"}
	rs := make([]string, n)
	s, rev := "", ""
	for i := range rs {
		rs[i] = runes[symChoice(len(runes))]
		s += rs[i]
		rev = rs[i] + rev
	}
	out, err := vhR("{{ s|reverse|raw }}|{{ s|reverse|reverse|raw }}|{{ s|reverse|length }}|{{ s|length }}", map[string]interface{}{"s": s})
	symCover("rendered")
	symAssert(err == nil, "no-error")
	symAssert(out == rev+"|"+s+"|"+strconv.Itoa(n)+"|"+strconv.Itoa(n), "reverse-of-characters")
}

// VH_C19_MergeTwice: merge concatenates and leaves its operands alone, also when the left operand has
// room behind its last element: the same base (a merge result, a slice window of a longer list, a range,
// a list from the context with spare capacity, a literal) is merged with two different lists and all three
// are printed afterwards.
func VH_C19_MergeTwice() {
	n := 1 + symChoice(symParam("N", 3))
	xs, ss := vhList(n, "abc")
	spare := make([]interface{}, n, n+4)
	copy(spare, xs)
	bases := []struct{ expr, want string }{
		{"xs|merge(['0'])", vhJoin(ss, ",") + ",0"},
		{"(xs|merge(['0', '1']))|slice(0, " + strconv.Itoa(n) + ")", vhJoin(ss, ",")},
		{"sp", vhJoin(ss, ",")},
		{"sp|slice(0, 1)", ss[0]},
		{"range(1, 3)", "1,2,3"},
		{"[x0, 'l']", ss[0] + ",l"},
		{"xs|merge([])|merge([])", vhJoin(ss, ",")},
	}
	b := bases[symChoice(len(bases))]
	symTag("base:" + b.expr)
	src := "{% set base = " + b.expr + " %}{% set a = base|merge(['x']) %}{% set b = base|merge(['y', 'z']) %}{{ a|join(',') }}|{{ b|join(',') }}|{{ base|join(',') }}|{{ a|length }}{{ b|length }}"
	out, err := vhR(src, map[string]interface{}{"xs": xs, "sp": spare, "x0": ss[0]})
	symCover("rendered")
	symAssert(err == nil, "no-error")
	nb := 1
	for i := 0; i < len(b.want); i++ {
		if b.want[i] == ',' {
			nb++
		}
	}
	symAssert(out == b.want+",x|"+b.want+",y,z|"+b.want+"|"+strconv.Itoa(nb+1)+strconv.Itoa(nb+2), "merge-concatenates-and-leaves-operands-alone")
}
