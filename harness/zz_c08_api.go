package twig

import "strconv"

// C08: expressions follow the operator table and mean the same in every position. Public API only.

type vhOp struct {
	sym  string
	prec int
}

// binary operators on numbers, by the property's table:
// or < and < comparison < + - ~ < * / % < ^ ; all left associative
var vhC08Ops = []vhOp{
	{"or", 1}, {"and", 2},
	{"==", 3}, {"!=", 3}, {"<", 3}, {">", 3}, {"<=", 3}, {">=", 3},
	{"+", 4}, {"-", 4}, {"~", 4},
	{"*", 5}, {"/", 5}, {"%", 5},
	// the word operators of the comparison level and the power operator (used when OPS > 14)
	{"in", 3}, {"not in", 3}, {"starts with", 3}, {"ends with", 3}, {"matches", 3}, {"^", 6},
}

// vhC08Full: fully parenthesised spelling by precedence climbing (left associative).
func vhC08Full(names []string, ops []vhOp) string {
	pos := 0
	var parse func(minPrec int) string
	parse = func(minPrec int) string {
		lhs := names[pos]
		for pos < len(ops) && ops[pos].prec >= minPrec {
			op := ops[pos]
			pos++
			rhs := parse(op.prec + 1)
			lhs = "(" + lhs + " " + op.sym + " " + rhs + ")"
		}
		return lhs
	}
	return parse(0)
}

func vhPrecClass(ops []vhOp) string {
	s := ""
	for _, o := range ops {
		s += strconv.Itoa(o.prec)
	}
	return s
}

// VH_C08_Paren: a o1 b o2 c (o3 d) written without parentheses has the value of its fully
// parenthesised form, for every choice of operators; operand values are small integers, one symbolic.
func VH_C08_Paren() {
	k := symParam("K", 2)
	names := []string{"a", "b", "c", "d", "f"}
	var ops []vhOp
	flat := "a"
	for i := 0; i < k; i++ {
		op := vhC08Ops[symChoice(symParam("OPS", 14))]
		ops = append(ops, op)
		flat += " " + op.sym + " " + names[i+1]
	}
	full := vhC08Full(names, ops)
	symTag("prec:" + vhPrecClass(ops))
	a := symInt()
	symAssume(a >= 1 && a <= 3)
	ctx := map[string]interface{}{"a": a, "b": 2, "c": 3, "d": 5, "f": 7}
	e := New()
	if e.RegisterString("flat", "{{ "+flat+" }}") != nil || e.RegisterString("full", "{{ "+full+" }}") != nil {
		symAssert(false, "expression-parses")
		return
	}
	o1, e1 := e.Render("flat", ctx)
	o2, e2 := e.Render("full", ctx)
	symCover("rendered")
	symAssert((e1 == nil) == (e2 == nil), "same-error")
	if e1 == nil && e2 == nil {
		symAssert(o1 == o2, "unparenthesised-equals-fully-parenthesised")
	}
}

// expressions for the position check; value is printed with the print tag as reference
var vhC08Exprs = []string{
	"4", "a", "a and b", "a or z", "not z", "a ? 1 : 2", "z ? 1 : 2", "a + b * c", "(a + b) * c", "a ~ b", "a == b", "a < b and b < c",
	"-a + b", "(-a + b)", "a - -b", "'x' ~ 'y'", "' in '", "'a=b'", "' with '", "' as '", "[a, b][1]", "{'k': a}['k']", "a|abs", "(a - c)|abs",
	"a in [1, 2, 3]", "'b' in 'abc'", "'abc' starts with 'a'", "'abc' ends with 'c'", "max(a, b)", "a is odd", "a is not even", "a  +   b", "a+b",
	// delimiter characters inside string literals, nested hashes and arrays
	"a ~ '{'", "'}' ~ a", "'{{' ~ a", "'}}'", "'%}' ~ '{%'", "\"#}\" ~ '{#'", "{'k': '}'}['k']", "{'a': {'b': a}}['a']['b']", "[[a, b], [c]][0][1]", "'\\'' ~ a", "\"\\\"\" ~ a",
	"a b" + "",
}

// positions: %E is the expression
var vhC08Positions = []string{
	"{% if %E %}T{% else %}F{% endif %}|{{ (%E) ? 'T' : 'F' }}",
	"{% set v = %E %}{{ v }}",
	"{% for i in [%E] %}{{ i }}{% endfor %}",
	"{% include 'show' with {'v': %E} %}",
	"{{ (%E)|raw }}",
	"{{ max(%E, %E) }}",
	"{% macro m(p) %}{{ p }}{% endmacro %}{{ m(%E) }}",
	"{{ [%E][0] }}",
	"{{ {'k': %E}['k'] }}",
	"{{ true ? %E : 0 }}",
	"{% if false %}{% elseif %E %}T{% else %}F{% endif %}",
	"{{ %E }}",
	"{{%E}}",
	"{{ (%E) }}",
}

// VH_C08_Position: the value of an expression is the same in every place it can be written.
func VH_C08_Position() {
	x := symChoice(len(vhC08Exprs) - 1) // the last entry ("a b") is a syntax error, excluded
	p := symChoice(len(vhC08Positions))
	ex := vhC08Exprs[x]
	if p == 12 && ex[0] == '-' {
		return // "{{-a + b}}" is a whitespace-control dash, not a unary minus
	}
	symTag("expr:" + ex)
	a := symInt()
	symAssume(a >= 1 && a <= 2)
	ctx := map[string]interface{}{"a": a, "b": 2, "c": 3}
	e := New()
	e.RegisterString("show", "{{ v }}")
	if e.RegisterString("ref", "{{ "+ex+" }}") != nil {
		symAssert(false, "print-tag-parses")
		return
	}
	ref, rerr := e.Render("ref", ctx)
	if err := e.RegisterString("pos", vhReplace(vhC08Positions[p], "%E", ex)); err != nil {
		symAssert(false, "position-parses")
		return
	}
	out, err := e.Render("pos", ctx)
	symCover("rendered")
	symAssert(rerr == nil && err == nil, "renders")
	want := ref
	if p == 0 || p == 10 {
		// condition positions: compare the truth value with the ternary in the same template / with the print
		t := "F"
		if ref != "" && ref != "0" && ref != "false" {
			t = "T"
		}
		want = t
		if p == 0 {
			want = t + "|" + t
		}
	}
	if p == 5 && ref != "" {
		// max(E, E) = E for numbers; skip non-numeric values
		if _, perr := strconv.Atoi(ref); perr != nil {
			return
		}
	}
	symAssert(out == want, "same-value-in-every-position")
}

// VH_C08_Arith: + - * and the comparisons on integers are exact; == on mixed.
func VH_C08_Arith() {
	a, b := symInt(), symInt()
	symAssume(a >= -6 && a <= 6)
	symAssume(b >= -6 && b <= 6)
	out, err := vhR("{{ a + b }}|{{ a - b }}|{{ a * b }}|{{ a < b }}|{{ a <= b }}|{{ a == b }}|{{ a != b }}|{{ a > b }}|{{ a >= b }}|{{ -a }}|{{ a ~ b }}",
		map[string]interface{}{"a": a, "b": b})
	symCover("rendered")
	symAssert(err == nil, "renders")
	bs := func(x bool) string {
		if x {
			return "true"
		}
		return "false"
	}
	want := strconv.Itoa(a+b) + "|" + strconv.Itoa(a-b) + "|" + strconv.Itoa(a*b) + "|" + bs(a < b) + "|" + bs(a <= b) + "|" + bs(a == b) + "|" + bs(a != b) + "|" + bs(a > b) + "|" + bs(a >= b) + "|" + strconv.Itoa(-a) + "|" + strconv.Itoa(a) + strconv.Itoa(b)
	symAssert(out == want, "exact-integer-arithmetic")
}

// VH_C08_Lazy: and/or evaluate the right operand only when needed; the conditional operator
// evaluates exactly one branch. The deciding operand ranges over every value type (bool, int, float
// from arithmetic, int64, string, nil, list, map), the other operands are spy function calls.
func VH_C08_Lazy() {
	var lv interface{}
	var l bool
	lexpr := "spy('L', l)"
	switch symChoice(10) {
	case 0:
		b := symBool()
		lv, l = b, b
	case 1:
		i := symInt()
		symAssume(i >= -1 && i <= 1)
		lv, l = i, i != 0
	case 2:
		f := []float64{0, 0.5}[symChoice(2)]
		lv, l = f, f != 0
	case 3:
		i := []int64{0, 7}[symChoice(2)]
		lv, l = i, i != 0
	case 4:
		s := symStringIn(symChoice(2), "a0")
		lv, l = s, s != ""
	case 5:
		lv, l = nil, false
	case 6:
		n := symChoice(2)
		lv, l = make([]interface{}, n), n > 0
	case 7:
		m := map[string]interface{}{}
		if symBool() {
			m["k"] = 1
		}
		lv, l = m, len(m) > 0
	case 8: // the left operand is computed: arithmetic yields a float
		i := symInt()
		symAssume(i >= 2 && i <= 4)
		lv, l = i, i != 3
		lexpr = "(spy('L', l) - 3)"
	case 9: // an array literal / hash literal operand
		if symBool() {
			lexpr, l = "[spy('L', 1)]", true
		} else {
			lexpr, l = "spy('L', [])", false
		}
		lv = 0
	}
	r := symBool()
	calls := ""
	e := New()
	e.AddFunction("spy", func(a ...interface{}) (interface{}, error) {
		calls += a[0].(string)
		return a[1], nil
	})
	form := symChoice(5)
	src := []string{
		"{% if " + lexpr + " and spy('R', r) %}T{% else %}F{% endif %}",
		"{% if " + lexpr + " or spy('R', r) %}T{% else %}F{% endif %}",
		"{{ " + lexpr + " ? spy('A', 'T') : spy('B', 'F') }}",
		"{% set v = " + lexpr + " and spy('R', r) %}{% if v %}T{% else %}F{% endif %}",
		"{{ (" + lexpr + " or spy('R', r)) ? 'T' : 'F' }}",
	}[form]
	if err := e.RegisterString("t", src); err != nil {
		symAssert(false, "expression-parses")
		return
	}
	out, err := e.Render("t", map[string]interface{}{"l": lv, "r": r})
	symCover("rendered")
	symAssert(err == nil, "renders")
	var want, wcalls string
	bt := func(x bool) string {
		if x {
			return "T"
		}
		return "F"
	}
	switch form {
	case 0, 3:
		want, wcalls = bt(l && r), "L"
		if l {
			wcalls = "LR"
		}
	case 1, 4:
		want, wcalls = bt(l || r), "L"
		if !l {
			wcalls = "LR"
		}
	case 2:
		want, wcalls = bt(l), "LB"
		if l {
			wcalls = "LA"
		}
	}
	symAssert(out == want, "logical-value")
	symAssert(calls == wcalls, "operands-evaluated-only-when-needed")
}

// ---- C08.big: arithmetic results keep their value wherever they are turned into text -------------
var vhC08Bases = []int{99999, 999999, 1000000, 9999999, 20000000, 2147483647, 4294967296, 1000000000000000, 9007199254740991}

// VH_C08_Big: a = ±(base + d) with d in [-1, 1] around decimal and binary magnitude boundaries (10^5 ..
// 10^7, 2^31, 2^32, 10^15, 2^53-1). The results of a*1, a+0, a-0, -(-a), a/1 are whole numbers that a
// float64 holds exactly; printed, concatenated, joined, compared, searched and measured they are the
// integer a.
func VH_C08_Big() {
	k := symChoice(len(vhC08Bases))
	d := symInt()
	symAssume(d >= -1 && d <= 1)
	a := vhC08Bases[k] + d
	if a > 9007199254740991 {
		a = 9007199254740991
	}
	if symBool() {
		a = -a
	}
	symTag("base:" + strconv.Itoa(vhC08Bases[k]))
	s := strconv.Itoa(a)
	out, err := vhR("{{ a * 1 }}|{{ (a * 1) ~ 'x' }}|{{ a + 0 }}|{{ a - 0 }}|{{ -(-a) }}|{{ a / 1 }}|{{ (a * 1) in [a] }}|{{ a in [a * 1] }}|"+
		"{{ ((a * 1) ~ '') starts with s }}|{{ ((a + 0) ~ '') ends with s }}|{{ [a * 1, a + 0]|join(',') }}|{{ (a * 1) == a }}|{{ (a * 1) ~ '' == s }}|"+
		"{% set q = a * 1 %}{{ q }}|{{ (a * 1)|default('d') }}|{{ max(a * 1, a - 1) }}|{{ (a * 1)|abs }}|{% for z in [a * 1] %}{{ z }}{% endfor %}|{{ (a * 1)|e }}",
		map[string]interface{}{"a": a, "s": s})
	symCover("rendered")
	symAssert(err == nil, "renders")
	abs := s
	if a < 0 {
		abs = s[1:]
	}
	want := s + "|" + s + "x|" + s + "|" + s + "|" + s + "|" + s + "|true|true|true|true|" + s + "," + s + "|true|true|" + s + "|" + s + "|" + s + "|" + abs + "|" + s + "|" + s
	symAssert(out == want, "whole-results-are-integers-everywhere")
	// a neighbouring integer is a different number, under every comparison and membership operator
	b := a - 1
	if b < -9007199254740991 {
		b = a + 1
	}
	out2, err2 := vhR("{{ a == b }}|{{ a != b }}|{{ a in [b] }}|{{ a not in [b] }}|{{ b == a }}|{{ (a * 1) == (b * 1) }}|{{ (a + 0) != (b + 0) }}|{% if a == b %}eq{% else %}ne{% endif %}|{{ a == b ? 'eq' : 'ne' }}|{{ [a, b]|length }}{{ a in [b, 0] ? 'in' : 'out' }}",
		map[string]interface{}{"a": a, "b": b})
	symAssert(err2 == nil && out2 == "false|true|false|true|false|false|true|ne|ne|2out", "adjacent-integers-are-different-numbers")
}

// ---- C08.calls: arguments of a call are evaluated once each and stay what they were ------------------

// VH_C08_Calls: function calls nested in the arguments of function calls (max, min, range, length,
// a user function that returns its argument list), in every argument position, with arithmetic around
// them; a, b, c symbolic in [1,4]. Oracle: the value computed by the harness.
func VH_C08_Calls() {
	a, b, c := symInt(), symInt(), symInt()
	symAssume(a >= 1 && a <= 4 && b >= 1 && b <= 4 && c >= 1 && c <= 4)
	mx := func(x, y int) int {
		if x > y {
			return x
		}
		return y
	}
	mn := func(x, y int) int {
		if x < y {
			return x
		}
		return y
	}
	i := strconv.Itoa
	cases := []struct {
		src  string
		want string
	}{
		{"{{ max(a * b, min(b + 1, c)) }}", i(mx(a*b, mn(b+1, c)))},
		{"{{ min(max(a, b), max(b, c), c + 1) }}", i(mn(mn(mx(a, b), mx(b, c)), c+1))},
		{"{{ max(a, max(b, max(c, 2))) }}", i(mx(a, mx(b, mx(c, 2))))},
		{"{{ list(a, list(b, c)|join('-'), c)|join(',') }}", i(a) + "," + i(b) + "-" + i(c) + "," + i(c)},
		{"{{ list(list(a)|join, list(b, c)|length, list(max(a, b), min(b, c))|join('/'))|join(',') }}", i(a) + ",2," + i(mx(a, b)) + "/" + i(mn(b, c))},
		{"{{ range(min(a, b), max(a, b))|length }}", i(mx(a, b) - mn(a, b) + 1)},
		{"{{ max(a, b) + max(b, c) * min(a, c) }}", i(mx(a, b) + mx(b, c)*mn(a, c))},
		{"{% set m = max(a, min(b, c)) %}{{ list(m, max(m, c))|join(',') }}", i(mx(a, mn(b, c))) + "," + i(mx(mx(a, mn(b, c)), c))},
		{"{% macro k(p, q) %}{{ p }}:{{ q }}{% endmacro %}{{ _self.k(max(a, b), min(b, c)) }}|{{ list(a, _self.k(b, c)|trim, c)|length }}", i(mx(a, b)) + ":" + i(mn(b, c)) + "|3"},
		{"{{ (xs|slice(min(a, 2), max(1, 1)))|join }}{{ xs|slice(0, min(a, b))|length }}", []string{"q", "r", "r"}[mn(a, 2)-0-1+0] + i(mn(mn(a, b), 3))},
	}
	k := symChoice(len(cases))
	symTag("expr:" + cases[k].src)
	e := New()
	e.AddFunction("list", func(args ...interface{}) (interface{}, error) { return append([]interface{}{}, args...), nil })
	if e.RegisterString("t", cases[k].src) != nil {
		symAssert(false, "template-parses")
		return
	}
	out, err := e.Render("t", map[string]interface{}{"a": a, "b": b, "c": c, "xs": []interface{}{"p", "q", "r"}})
	symCover("rendered")
	symAssert(err == nil, "renders")
	symAssert(out == cases[k].want, "nested-calls-keep-their-arguments")
}
