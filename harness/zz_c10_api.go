package twig

import "strconv"

// C10: template inheritance is block substitution along the extends chain. Public API only.
// A chain base <- l1 <- l2 (<- l3) with blocks a, b (b nested inside a in the base), c inside a for
// loop and d inside an if in the base. Per level and block one of: absent / defined / defined empty /
// defined calling parent(). Oracle: reference substitution function below.

const (
	vhAbsent = iota
	vhDefined
	vhEmpty
	vhParent
)

var vhC10Blocks = []string{"a", "c", "d"}

// body of block blk at level lvl (lvl 0 = base)
func vhC10Body(kind int, lvl int, blk string) string {
	tag := blk + []string{"0", "1", "2", "3"}[lvl]
	switch kind {
	case vhDefined:
		return tag + "{{ x }}"
	case vhEmpty:
		return ""
	case vhParent:
		return tag + "({{ parent() }})"
	}
	return ""
}

// reference: what block blk renders to, given kinds[level] for that block (level 0 always defined)
func vhC10Ref(kinds []int, blk string, x string, top int) string {
	var render func(level int) string
	render = func(level int) string {
		for l := level; l >= 0; l-- {
			tag := blk + []string{"0", "1", "2", "3"}[l]
			switch kinds[l] {
			case vhDefined:
				return tag + x
			case vhEmpty:
				return ""
			case vhParent:
				return tag + "(" + render(l-1) + ")"
			}
		}
		return ""
	}
	return render(top)
}

// VH_C10_Chain: depth 1..D, every assignment of {absent, defined, empty, parent()} to the levels above
// the base for three blocks placed plainly, inside a for loop and inside an if of the base layout.
func VH_C10_Chain() {
	depth := 1 + symChoice(symParam("D", 2)) // number of levels above the base
	dynamic := symBool()
	x := symStringIn(1, vhValAlphabet)
	kinds := map[string][]int{}
	nb := symParam("B", len(vhC10Blocks)) // blocks whose treatment varies; the others are never overridden
	for bi, b := range vhC10Blocks {
		ks := []int{vhDefined}
		for l := 1; l <= depth; l++ {
			if bi < nb {
				ks = append(ks, symChoice(4))
			} else {
				ks = append(ks, vhAbsent)
			}
		}
		kinds[b] = ks
	}
	e := New()
	e.RegisterString("l0", "<{% block a %}a0{{ x }}{% endblock %}|{% for i in [1, 2] %}{% block c %}c0{{ x }}{% endblock %}{% endfor %}|{% if true %}{% block d %}d0{{ x }}{% endblock %}{% endif %}>")
	names := []string{"l0", "l1", "l2", "l3"}
	tag := ""
	for l := 1; l <= depth; l++ {
		src := "{% extends '" + names[l-1] + "' %}"
		if dynamic && l == depth {
			src = "{% extends parentname %}"
		}
		src += "junk-outside-blocks"
		for _, b := range vhC10Blocks {
			k := kinds[b][l]
			tag += []string{"-", "D", "E", "P"}[k]
			if k != vhAbsent {
				src += "{% block " + b + " %}" + vhC10Body(k, l, b) + "{% endblock %}more junk"
			}
		}
		tag += "/"
		if err := e.RegisterString(names[l], src); err != nil {
			symAssert(false, "template-parses")
			return
		}
	}
	symTag("kinds:" + tag)
	out, err := e.Render(names[depth], map[string]interface{}{"x": x, "parentname": names[depth-1]})
	symCover("rendered")
	symAssert(err == nil, "renders")
	if err != nil {
		return
	}
	ra := vhC10Ref(kinds["a"], "a", x, depth)
	rc := vhC10Ref(kinds["c"], "c", x, depth)
	rd := vhC10Ref(kinds["d"], "d", x, depth)
	symAssert(out == "<"+ra+"|"+rc+rc+"|"+rd+">", "block-substitution")
}

// VH_C10_Nested: a block nested inside another block is substituted where it stands.
func VH_C10_Nested() {
	x := symStringIn(1, vhValAlphabet)
	ko, ki := symChoice(4), symChoice(4) // child's treatment of the outer and of the inner block
	e := New()
	e.RegisterString("base", "[{% block outer %}o({% block inner %}i{{ x }}{% endblock %}){% endblock %}]")
	src := "{% extends 'base' %}"
	switch ko {
	case vhDefined:
		src += "{% block outer %}O{{ x }}{% endblock %}"
	case vhEmpty:
		src += "{% block outer %}{% endblock %}"
	case vhParent:
		src += "{% block outer %}O<{{ parent() }}>{% endblock %}"
	}
	switch ki {
	case vhDefined:
		src += "{% block inner %}I{{ x }}{% endblock %}"
	case vhEmpty:
		src += "{% block inner %}{% endblock %}"
	case vhParent:
		src += "{% block inner %}I<{{ parent() }}>{% endblock %}"
	}
	symTag("outer:" + []string{"-", "D", "E", "P"}[ko] + " inner:" + []string{"-", "D", "E", "P"}[ki])
	if e.RegisterString("child", src) != nil {
		symAssert(false, "template-parses")
		return
	}
	out, err := e.Render("child", map[string]interface{}{"x": x})
	symCover("rendered")
	symAssert(err == nil, "renders")
	inner := "i" + x
	switch ki {
	case vhDefined:
		inner = "I" + x
	case vhEmpty:
		inner = ""
	case vhParent:
		inner = "I<i" + x + ">"
	}
	outer := "o(" + inner + ")"
	switch ko {
	case vhDefined:
		outer = "O" + x
	case vhEmpty:
		outer = ""
	case vhParent:
		outer = "O<o(" + inner + ")>"
	}
	if err == nil {
		symAssert(out == "["+outer+"]", "nested-block-substitution")
	}
}

// ---- C10.wrapped: parent() inside other constructs ------------------------------------------------
var vhC10WKinds = []string{"-", "D", "E", "P", "Papply", "Pspaceless", "Pif", "Pfor", "Pfilter", "Ptwice", "Pinclude", "Pnestedif", "Pset", "Pconcat", "Pcond", "Pdefault", "Plength"}

func vhC10WBody(kind string, tag string) string {
	switch kind {
	case "D":
		return tag + "{{ x }}"
	case "E":
		return ""
	case "P":
		return tag + "({{ parent() }})"
	case "Papply":
		return tag + "{% apply upper %}{{ parent() }}{% endapply %}"
	case "Pspaceless":
		return tag + "{% spaceless %}{{ parent() }}{% endspaceless %}"
	case "Pif":
		return tag + "{% if x != 'no' %}{{ parent() }}{% endif %}"
	case "Pfor":
		return tag + "{% for i in [1, 2] %}{{ parent() }};{% endfor %}"
	case "Pfilter":
		return tag + "{{ parent()|upper }}"
	case "Ptwice":
		return tag + "{{ parent() }}+{{ parent() }}"
	case "Pinclude":
		return tag + "{% include 'inc' %}{{ parent() }}{% include 'inc' %}"
	case "Pset":
		return tag + "{% set p = parent() %}[{{ p }}]"
	case "Pconcat":
		return tag + "{{ 'q' ~ parent() ~ 'r' }}"
	case "Pcond":
		return tag + "{{ x != 'no' ? parent() : 'n' }}{{ x == 'no' ? parent() : 'n' }}"
	case "Pdefault":
		return tag + "{{ parent()|default('d') }}"
	case "Plength":
		return tag + "{{ parent()|length }}"
	case "Pnestedif":
		return tag + "{% if true %}{% for i in [1] %}{% apply lower %}{{ parent() }}{% endapply %}{% endfor %}{% endif %}"
	}
	return ""
}

func vhLowerASCII(s string) string {
	b := []byte(s)
	for i, c := range b {
		if c >= 'A' && c <= 'Z' {
			b[i] = c + 32
		}
	}
	return string(b)
}

func vhC10WRef(kinds []string, x string, level int) string {
	for l := level; l >= 0; l-- {
		tag := "a" + []string{"0", "1", "2", "3"}[l]
		p := func() string { return vhC10WRef(kinds, x, l-1) }
		switch kinds[l] {
		case "D":
			return tag + x
		case "E":
			return ""
		case "P":
			return tag + "(" + p() + ")"
		case "Papply", "Pfilter":
			return tag + vhUpperASCII(p())
		case "Pspaceless", "Pif":
			return tag + p()
		case "Pfor":
			return tag + p() + ";" + p() + ";"
		case "Ptwice":
			return tag + p() + "+" + p()
		case "Pinclude":
			return tag + "I" + p() + "I"
		case "Pnestedif":
			return tag + vhLowerASCII(p())
		case "Pset":
			return tag + "[" + p() + "]"
		case "Pconcat":
			return tag + "q" + p() + "r"
		case "Pcond":
			return tag + p() + "n"
		case "Pdefault":
			if r := p(); r != "" {
				return tag + r
			}
			return tag + "d"
		case "Plength":
			return tag + strconv.Itoa(len(p()))
		}
	}
	return ""
}

// VH_C10_Wrapped: one block along a chain of depth 1..D; at every level above the base the block is
// absent, defined, empty, or calls parent() plainly or from inside apply, spaceless, if, for, a filter
// chain, twice, between two includes, or three constructs deep. Oracle: the substitution function.
func VH_C10_Wrapped() {
	depth := 1 + symChoice(symParam("D", 2))
	x := symStringIn(1, "aZ0")
	kinds := []string{"D"}
	tag := ""
	e := New()
	e.RegisterString("inc", "I")
	viaParse := symBool()
	if viaParse {
		symTag("ParseTemplate+RegisterTemplate")
		t0, _ := e.ParseTemplate("<{% block a %}a0{{ x }}{% endblock %}>")
		e.RegisterTemplate("l0", t0)
	} else {
		e.RegisterString("l0", "<{% block a %}a0{{ x }}{% endblock %}>")
	}
	names := []string{"l0", "l1", "l2", "l3"}
	for l := 1; l <= depth; l++ {
		k := vhC10WKinds[symChoice(len(vhC10WKinds))]
		kinds = append(kinds, k)
		tag += k + "/"
		src := "{% extends '" + names[l-1] + "' %}"
		if k != "-" {
			src += "{% block a %}" + vhC10WBody(k, "a"+[]string{"0", "1", "2", "3"}[l]) + "{% endblock %}"
		}
		// either way of putting a template under a name
		if viaParse {
			t, perr := e.ParseTemplate(src)
			if perr != nil {
				symAssert(false, "template-parses")
				return
			}
			e.RegisterTemplate(names[l], t)
		} else if e.RegisterString(names[l], src) != nil {
			symAssert(false, "template-parses")
			return
		}
	}
	symTag("kinds:" + tag)
	out, err := e.Render(names[depth], map[string]interface{}{"x": x})
	symCover("rendered")
	symAssert(err == nil, "renders")
	if err != nil {
		return
	}
	symAssert(out == "<"+vhC10WRef(kinds, x, depth)+">", "block-substitution")
	// a second render of the same template gives the same bytes (no state left in the chain)
	out2, err2 := e.Render(names[depth], map[string]interface{}{"x": x})
	symAssert(err2 == nil && out2 == out, "block-substitution-repeatable")
}

// ---- C10.choose: the parent is what the extends expression evaluates to, at every render ------------

// VH_C10_Choose: a template whose extends tag is an expression (a name in a variable, a conditional
// with literal arms, a conditional with a literal and a variable arm, a concatenation, the first
// element of a list) is rendered R times on one engine with contexts that select layout A or layout B
// (the selection of every render is symbolic): each render is block substitution into the layout its
// own context selects, whatever earlier renders selected.
func VH_C10_Choose() {
	r := symParam("R", 3)
	forms := []string{
		"{% extends layout %}",
		"{% extends wide ? 'A' : 'B' %}",
		"{% extends wide ? 'A' : other %}",
		"{% extends 'lay' ~ suffix %}",
		"{% extends [layout, 'B'][0] %}",
		"{% extends wide ? (wide ? 'A' : 'B') : 'B' %}",
	}
	f := symChoice(len(forms))
	symTag("form:" + forms[f])
	callsParent := symBool()
	e := New()
	e.RegisterString("A", "A<{% block a %}a{{ x }}{% endblock %}|{% block b %}Ab{% endblock %}>")
	e.RegisterString("B", "B[{% block b %}Bb{% endblock %}|{% block a %}b{{ x }}{% endblock %}]")
	e.RegisterString("layA", "{% extends 'A' %}")
	e.RegisterString("layB", "{% extends 'B' %}")
	body := "c{{ x }}"
	if callsParent {
		body = "c({{ parent() }})"
	}
	if e.RegisterString("page", forms[f]+"{% block a %}"+body+"{% endblock %}") != nil {
		symCover("rejected-at-parse")
		return
	}
	hist := ""
	for i := 0; i < r; i++ {
		wide := symBool()
		x := symStringIn(1, "xy")
		ctx := map[string]interface{}{"x": x, "wide": wide, "layout": "B", "other": "B", "suffix": "B"}
		inner := "c" + x
		want := "B[Bb|" + inner + "]"
		if callsParent {
			want = "B[Bb|c(b" + x + ")]"
		}
		if wide {
			hist += "A"
			ctx["layout"], ctx["suffix"] = "A", "A"
			want = "A<" + inner + "|Ab>"
			if callsParent {
				want = "A<c(a" + x + ")|Ab>"
			}
		} else {
			hist += "B"
		}
		out, err := e.Render("page", ctx)
		symAssert(err == nil, "renders")
		symAssert(out == want, "parent-is-what-this-render-selects")
	}
	symTag("hist:" + hist)
	symCover("rendered")
}

// ---- C10.vars: "with the same variables" ----------------------------------------------------------------

// VH_C10_Vars: layouts, blocks and parent() see the variables of the render exactly as a template
// without inheritance sees them: context values (one of them also registered as an engine global with
// another value, one only a global, one present with a null value or absent) are read at top level of a
// plain template, and at every level of a chain of depth 1..2: in the layout outside blocks, in a default
// block body, in an overriding block and in what parent() renders.
func VH_C10_Vars() {
	x := symStringIn(1, "ab")
	hasZ := symBool()
	depth := 1 + symChoice(2)
	e := New()
	e.AddGlobal("x", "GX")
	e.AddGlobal("g", "GG")
	probe := "{{ x }},{{ g }},{% if z is defined %}D{% else %}U{% endif %},{{ z is null ? 'N' : 'V' }},{{ y|default('dy') }}"
	e.RegisterString("plain", probe)
	e.RegisterString("l0", "<"+probe+"|{% block a %}"+probe+"{% endblock %}|{% block b %}"+probe+"{% endblock %}>")
	e.RegisterString("l1", "{% extends 'l0' %}{% block a %}1:"+probe+"({{ parent() }}){% endblock %}")
	e.RegisterString("l2", "{% extends 'l1' %}{% block a %}2:"+probe+"({{ parent() }}){% endblock %}{% block b %}B:"+probe+"{% endblock %}")
	ctx := map[string]interface{}{"x": x, "y": nil}
	if hasZ {
		ctx["z"] = nil
		symTag("z-null")
	}
	p, perr := e.Render("plain", ctx)
	name := []string{"l0", "l1", "l2"}[depth]
	out, err := e.Render(name, ctx)
	symCover("rendered")
	symAssert(perr == nil && err == nil, "renders")
	var want string
	if depth == 1 {
		want = "<" + p + "|1:" + p + "(" + p + ")|" + p + ">"
	} else {
		want = "<" + p + "|2:" + p + "(1:" + p + "(" + p + "))|B:" + p + ">"
	}
	symAssert(out == want, "same-variables-at-every-level")
}
