package twig

import (
	"strconv"
	"sync"
)

// Nondeterminism / assertion API of the harnesses. The symbolic engine (symx) intercepts these
// functions by name; the bodies below are the native implementation used for replay: values are
// popped from a recorded vector, assertions are collected.
var vhReplay []uint64
var vhPos int
var vhFailed []string
var vhObserved []string
var vhParams = map[string]int{}

type vhStop struct{ why string }

func vhReset(vec []uint64) {
	vhReplay, vhPos, vhFailed, vhObserved = vec, 0, nil, nil
}

func vhNext() uint64 {
	if vhPos >= len(vhReplay) {
		return 0
	}
	v := vhReplay[vhPos]
	vhPos++
	return v
}

func symString(n int) string {
	b := make([]byte, n)
	for i := range b {
		b[i] = byte(vhNext())
	}
	return string(b)
}
func symChoice(n int) int {
	v := int(vhNext())
	if v < 0 || v >= n {
		panic(vhStop{"choice out of range"})
	}
	return v
}
func symByte() byte { return byte(vhNext()) }
func symInt() int   { return int(vhNext()) }
func symBool() bool { return vhNext() != 0 }
func symAssume(b bool) {
	if !b {
		panic(vhStop{"assumption not met"})
	}
}
func symAssert(b bool, id string) {
	if !b {
		vhFailed = append(vhFailed, id)
		vhObserved = append(vhObserved, "FAIL:"+id)
	}
}
func symCover(id string)                             { vhObserved = append(vhObserved, "cover:"+id) }
func symMapAdversary(on bool)                        {}
func symMarkReadonly(root interface{}, label string) {}
func symMarkShared(root interface{}, label string)   {}
func symConcurrentPhase(on bool)                     {}
func symPoolModel(model int)                         {}

// symParallel runs f and g concurrently. The symbolic engine runs them as two threads and explores
// the interleavings at synchronisation points (bounded number of switches); natively they are two
// goroutines.
func symParallel(f, g func()) {
	var wg sync.WaitGroup
	start := make(chan struct{})
	wg.Add(2)
	go func() { defer wg.Done(); <-start; f() }()
	go func() { defer wg.Done(); <-start; g() }()
	close(start)
	wg.Wait()
}
func symTag(t string) { vhObserved = append(vhObserved, "tag:"+t) }

func symParam(name string, def int) int {
	if v, ok := vhParams[name]; ok {
		return v
	}
	return def
}

func symObserve(tag string, v interface{}) {
	switch x := v.(type) {
	case string:
		vhObserved = append(vhObserved, tag+"="+strconv.Quote(x))
	case nil:
		vhObserved = append(vhObserved, tag+"=<nil>")
	case error:
		vhObserved = append(vhObserved, tag+"=<err>")
	case int:
		vhObserved = append(vhObserved, tag+"="+strconv.Itoa(x))
	case bool:
		vhObserved = append(vhObserved, tag+"="+strconv.FormatBool(x))
	default:
		vhObserved = append(vhObserved, tag+"=?")
	}
}

// symStringIn: n arbitrary bytes, each from the given alphabet.
func symStringIn(n int, alphabet string) string {
	b := make([]byte, n)
	for i := range b {
		b[i] = byte(vhNext())
		ok := false
		for j := 0; j < len(alphabet); j++ {
			if alphabet[j] == b[i] {
				ok = true
			}
		}
		if !ok {
			panic(vhStop{"byte outside alphabet"})
		}
	}
	return string(b)
}
