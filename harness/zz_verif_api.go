package twig

// Nondeterminism / assertion API. The symbolic engine intercepts these by name;
// the bodies below are the native replay implementation.
var vhReplay []uint64
var vhPos int
var vhFailed []string

func vhNext() uint64 {
	if vhPos >= len(vhReplay) {
		return 0
	}
	v := vhReplay[vhPos]
	vhPos++
	return v
}

func symString(n int) string {
	b := make([]byte, n)
	for i := range b {
		b[i] = byte(vhNext())
	}
	return string(b)
}
func symChoice(n int) int { return int(vhNext()) }
func symByte() byte       { return byte(vhNext()) }
func symInt() int         { return int(vhNext()) }
func symBool() bool       { return vhNext() != 0 }
func symAssume(b bool) {
	if !b {
		vhFailed = append(vhFailed, "ASSUMPTION-NOT-MET")
	}
}
func symAssert(b bool, id string) {
	if !b {
		vhFailed = append(vhFailed, id)
	}
}
func symCover(id string)                              {}
func symMapAdversary(on bool)                         {}
func symMarkReadonly(root interface{}, label string)  {}
func symMarkShared(root interface{}, label string)    {}
func symConcurrentPhase(on bool)                      {}
func symTag(t string) {}

var vhObserved []string

func symObserve(tag string, v interface{}) {
	if s, ok := v.(string); ok {
		vhObserved = append(vhObserved, tag+"="+vhQuote(s))
		return
	}
	if v == nil {
		vhObserved = append(vhObserved, tag+"=<nil>")
		return
	}
	if _, ok := v.(error); ok {
		vhObserved = append(vhObserved, tag+"=<ptr>")
		return
	}
	vhObserved = append(vhObserved, tag+"=?")
}
