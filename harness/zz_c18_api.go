package twig

import "strconv"

// C18: rendering never modifies the caller's data. Public API only. The context is built from
// every container shape; a structural snapshot (written without reflection) is taken before and
// compared after the render, and a second render sharing the data must give the same output.

var vhC18Keys = []string{"a", "b", "c", "k", "z", "x", "xs", "ss", "is", "arr", "m", "mi", "st", "nest", "deep", "i", "j", "u", "u2", "uv"}

func vhSnap(v interface{}) string {
	switch x := v.(type) {
	case nil:
		return "nil"
	case string:
		return "s" + strconv.Itoa(len(x)) + ":" + x
	case int:
		return "i" + strconv.Itoa(x)
	case bool:
		if x {
			return "T"
		}
		return "F"
	case float64:
		return "f" + strconv.FormatFloat(x, 'g', -1, 64)
	case []interface{}:
		s := "[" + strconv.Itoa(cap(x)) + "/"
		for _, e := range x[:cap(x)] { // including the spare capacity a careless append would write into
			s += vhSnap(e) + ","
		}
		return s + "]"
	case []string:
		s := "S["
		for _, e := range x[:cap(x)] {
			s += e + ","
		}
		return s + "]"
	case []int:
		s := "I["
		for _, e := range x[:cap(x)] {
			s += strconv.Itoa(e) + ","
		}
		return s + "]"
	case [2]int:
		return "A[" + strconv.Itoa(x[0]) + "," + strconv.Itoa(x[1]) + "]"
	case map[string]interface{}:
		s := "{" + strconv.Itoa(len(x)) + ":"
		for _, k := range vhC18Keys {
			if e, ok := x[k]; ok {
				s += k + "=" + vhSnap(e) + ","
			}
		}
		return s + "}"
	case map[string]int:
		s := "M{" + strconv.Itoa(len(x)) + ":"
		for _, k := range vhC18Keys {
			if e, ok := x[k]; ok {
				s += k + "=" + strconv.Itoa(e) + ","
			}
		}
		return s + "}"
	case map[interface{}]interface{}:
		s := "X{" + strconv.Itoa(len(x)) + ":"
		for _, k := range []interface{}{"k", 1, "a"} {
			if e, ok := x[k]; ok {
				s += vhSnap(k) + "=" + vhSnap(e) + ","
			}
		}
		return s + "}"
	case *vhS:
		if x == nil {
			return "*nil"
		}
		return "*{" + x.A + "," + strconv.Itoa(x.B) + "," + vhSnap(x.C) + "," + strconv.Itoa(x.priv) + "}"
	case vhS:
		return "{" + x.A + "," + strconv.Itoa(x.B) + "," + vhSnap(x.C) + "}"
	case *vhC18User:
		return "*U{" + vhSnapBase(x.VhBase) + "," + x.Name + "," + vhSnapBase(x.Opt) + "}"
	case vhC18User:
		return "U{" + vhSnapBase(x.VhBase) + "," + x.Name + "," + vhSnapBase(x.Opt) + "}"
	}
	return "?"
}

// structs with an embedded pointer (nil or set) and an optional pointer field
type VhBase struct {
	ID    int
	Label string
}
type vhC18User struct {
	*VhBase
	Name string
	Opt  *VhBase
}

func vhSnapBase(b *VhBase) string {
	if b == nil {
		return "nil"
	}
	return "&{" + strconv.Itoa(b.ID) + "," + b.Label + "}"
}

func vhC18Ctx() map[string]interface{} {
	a, b := symStringIn(1, "ab0"), symStringIn(1, "ab0")
	spare := make([]interface{}, 3, 6) // a list with spare capacity
	spare[0], spare[1], spare[2] = b, a, "c"
	ss := make([]string, 2, 4)
	ss[0], ss[1] = b, a
	return map[string]interface{}{
		"x": a, "xs": spare, "ss": ss, "is": []int{3, 1, 2}, "arr": [2]int{2, 1},
		"m":    map[string]interface{}{"b": b, "a": a, "k": []interface{}{2, 1}},
		"mi":   map[string]int{"b": 2, "a": 1},
		"st":   &vhS{A: a, B: 1, C: []interface{}{"z", "y"}},
		"nest": []interface{}{[]interface{}{3, 1, 2}, map[string]interface{}{"k": []interface{}{"q", "p"}}},
		// interface-keyed maps (what YAML decoders produce) inside generic containers
		"deep": []interface{}{map[interface{}]interface{}{"k": "A", 1: "one"}, map[string]interface{}{"a": map[interface{}]interface{}{"k": "B"}}},
		"i":    1, "j": 2,
		// embedded pointers: nil in u and uv, set in u2
		"u": &vhC18User{Name: a}, "u2": &vhC18User{VhBase: &VhBase{ID: 1, Label: b}, Name: b, Opt: &VhBase{ID: 2, Label: "o"}}, "uv": vhC18User{Name: b},
	}
}

var vhC18Tpl = []string{
	"{{ xs|sort|join(',') }}{{ ss|sort|join(',') }}{{ is|sort|join(',') }}{{ arr|sort|join(',') }}{{ nest[0]|sort|join(',') }}",
	"{{ xs|reverse|join(',') }}{{ ss|reverse|join(',') }}{{ is|reverse|join(',') }}{{ x|reverse }}{{ m.k|reverse|join(',') }}",
	"{{ xs|merge([9, 8])|join(',') }}{{ ss|merge(['n'])|join(',') }}{{ xs|merge(xs)|length }}{{ m|merge({'z': 1})|length }}{{ mi|merge({'z': 1})|length }}{{ mi|merge(mi)|length }}",
	"{{ xs|slice(i, j)|join(',') }}{{ xs|slice(0, 2)|merge([7])|join(',') }}{{ xs|slice(1)|sort|join(',') }}{{ ss|slice(0, 1)|merge(['q'])|join(',') }}",
	"{{ m|keys|join(',') }}{{ mi|keys|sort|join(',') }}{{ xs|first }}{{ xs|last }}{{ m|length }}{{ xs|default('d')|length }}{{ m|default('d')|length }}",
	"{% set x = 'changed' %}{% set xs = [1] %}{% set m = {'n': 1} %}{% set st = 1 %}{{ x }}{{ xs|length }}",
	"{% for x in xs %}{{ x }}{% endfor %}{% for k, v in m %}{{ k }}{% endfor %}{% for i in is %}{% set j = i %}{% endfor %}{{ i }}{{ j }}",
	"{% include 'inc' %}{% include 'inc' with {'x': 'w', 'xs': [5]} %}{% include 'inc' with {'m': m} only %}{{ x }}",
	"{% macro f(xs, m) %}{% set xs = xs|merge([1]) %}{{ xs|sort|join(',') }}{{ m|merge({'q': 1})|length }}{% endmacro %}{{ f(xs, m) }}{{ f(nest[0], m) }}",
	"{% do xs|sort %}{% do m|merge({'a': 'over'}) %}{{ m.a }}{{ st.A }}{{ st.C|sort|join(',') }}{{ st.C|reverse|merge(['w'])|length }}",
	"{% set s = xs|sort %}{% set r = s|reverse %}{% set q = s|merge(['zz'])|sort %}{% set t = s|slice(0, 2) %}{% set u = t|merge(['0'])|sort %}[{{ s|join(',') }}][{{ r|join(',') }}][{{ t|join(',') }}]",
	"{% apply upper %}{{ xs|join(',') }}{% endapply %}{% spaceless %}<a> {{ m.a }} </a>{% endspaceless %}{% set n1 = nest[1] %}{{ n1.k|sort|join(',') }}{{ n1|merge({'k': 1})|length }}",
	"{{ xs|sort|reverse|slice(0, 2)|merge(xs)|sort|join(',') }}{{ m|merge(m)|keys|join(',') }}{{ xs|join(',')|split(',')|sort|join(',') }}",
	// filter chains whose first links hand the caller's own nested data through (first, last, default, raw, attribute, index)
	"{{ nest|first|sort|join(',') }}{{ nest|first|reverse|join(',') }}{{ nest|last|keys|join(',') }}{{ nosuch|default(xs)|reverse|join(',') }}{{ xs|raw|reverse|first }}",
	"{{ m.k|default([])|sort|join(',') }}{{ st.C|default([])|reverse|join(',') }}{% set r = nest|first|sort %}{{ r|join(',') }}{% if nest|first|sort|first == 1 %}y{% endif %}{{ [xs]|first|reverse|join(',') }}{{ {'q': xs}|first|sort|join(',') }}",
	"{% for v in nest|first|reverse %}{{ v }}{% endfor %}{% for v in xs|default([])|sort %}{{ v }}{% endfor %}{{ nest|first|sort|reverse|first }}{{ ss|default([])|sort|join(',') }}{{ is|default([])|reverse|join(',') }}",
	// data that a filter cannot encode or convert as it stands (the templates may fail, the data stays)
	"{{ deep|json_encode }}",
	"{{ deep|first|json_encode }}{{ deep|last|json_encode }}",
	"{{ deep|first|keys|join(',') }}{{ deep|last|keys|join(',') }}{{ deep|length }}{% for d in deep %}{% for k, v in d %}{{ k }}{% endfor %}{% endfor %}",
	"{{ deep|first|merge({'z': 1})|length }}{{ deep|first|sort|length }}{{ deep|first|url_encode }}{{ dump(deep) }}",
	// fields promoted through embedded pointers that are nil or set, optional pointer fields
	"{{ u.Label }}|{{ u.ID }}|{{ u.Name }}|{% if u.ID is defined %}d{% endif %}|{{ u2.Label }}{{ u2.ID }}{{ u2.Opt.Label }}|{{ uv.Label }}{{ uv.Name }}|{{ u.Opt.Label }}{{ u.Opt }}|{{ u.Label|default('none') }}{{ u.Label|length }}",
	"{% if u.Label %}y{% else %}n{% endif %}{% for k in [u.ID, u2.ID, uv.ID] %}{{ k }},{% endfor %}{% set l = u.Label %}[{{ l }}]{{ u['Label'] }}{{ u2['ID'] }}",
	// every construct that binds a name, binding the name of a map, list or struct the caller passed
	"{% import 'lib' as m %}{{ m.f(1) }}{% import 'lib' as xs %}{{ xs.f(2) }}{% import 'lib' as st %}{% import 'lib' as mi %}",
	"{% from 'lib' import f as m %}{{ m(1) }}{% from 'lib' import f as xs, g as nest %}{{ xs(2) }}{{ nest() }}",
	"{% macro m(a) %}<{{ a }}>{% endmacro %}{% macro xs() %}X{% endmacro %}{{ m(1) }}{{ _self.xs() }}",
	"{% for m in xs %}{{ m }}{% endfor %}{% for k, xs in m %}{{ k }}{% endfor %}{% for st in is %}{{ st }}{% endfor %}{% for mi, nest in mi %}{{ mi }}{% endfor %}",
	"{% block m %}B{% endblock %}{% block xs %}{{ xs|length }}{% endblock %}",
	"{% import 'lib' as l %}{{ l.h(m, xs) }}{{ l.h(nest[1], nest[0]) }}{% include 'inc2' with {'m': m, 'xs': xs} %}",
}

// VH_C18_Frame: the caller's context and everything reachable from it is unchanged by a render.
func VH_C18_Frame() {
	t := symChoice(len(vhC18Tpl))
	symTag("tpl:" + strconv.Itoa(t))
	ctx := vhC18Ctx()
	before := vhSnap(ctx)
	e := New()
	e.RegisterString("inc", "{% set x = 'inner' %}{% set fresh = 1 %}{{ xs|sort|join(',') }}{{ m|merge({'a': 1})|length }}")
	e.RegisterString("lib", "{% macro f(a) %}f{{ a }}{% endmacro %}{% macro g() %}g{% endmacro %}{% macro h(m, xs) %}{% set m = m|merge({'h': 1}) %}{% set xs = xs|merge([0])|sort %}{{ m|length }}{{ xs|join(',') }}{% endmacro %}")
	e.RegisterString("inc2", "{% import 'lib' as m %}{% from 'lib' import f as xs %}{{ m.f(1) }}{{ xs(2) }}")
	if err := e.RegisterString("t", vhC18Tpl[t]); err != nil {
		symAssert(false, "corpus-template-parses")
		return
	}
	symMarkReadonly(ctx, "caller-context")
	o1, e1 := e.Render("t", ctx)
	symCover("rendered")
	mayFail := len(vhC18Tpl[t]) > 8 && vhC18Tpl[t][:8] == "{{ deep|" // filters that may refuse the data
	if !mayFail {
		symAssert(e1 == nil, "renders")
	}
	symAssert(vhSnap(ctx) == before, "caller-data-unchanged")
	o2, e2 := e.Render("t", ctx)
	symAssert((e2 == nil) == (e1 == nil) && o2 == o1, "second-render-sharing-the-data-equal")
	symAssert(vhSnap(ctx) == before, "caller-data-unchanged-after-second-render")
}

// VH_C18_FilterValues: a value obtained from one filter is not changed by applying another one.
func VH_C18_FilterValues() {
	ctx := vhC18Ctx()
	xs := ctx["xs"].([]interface{})
	want := ""
	// reference: sorted copy of the three 1-byte strings
	s := []string{xs[0].(string), xs[1].(string), xs[2].(string)}
	for i := 0; i < 3; i++ {
		for j := i + 1; j < 3; j++ {
			if s[j] < s[i] {
				s[i], s[j] = s[j], s[i]
			}
		}
	}
	want = s[0] + "," + s[1] + "," + s[2]
	out, err := vhR("{% set s = xs|sort %}{% set a = s|join(',') %}{% set r = s|reverse %}{% set q = s|merge(['zz']) %}{% set t = s|slice(1, 2)|reverse %}{% set u = s|slice(0, 2)|merge(['0'])|sort %}{{ a }}|{{ s|join(',') }}", ctx)
	symCover("rendered")
	symAssert(err == nil, "renders")
	symAssert(out == want+"|"+want, "filter-result-not-changed-by-later-filters")
}

// VH_C18_MapValues: map- and typed-slice-valued filter results are not changed by later filters
// (merge into a merged map, keys of it reversed/sorted, slice of a typed slice merged and reversed).
func VH_C18_MapValues() {
	ctx := vhC18Ctx()
	a, b := ctx["x"].(string), ctx["ss"].([]string)[0]
	out, err := vhR("{% set m2 = m|merge({'z': x}) %}{% set k1 = m2|keys|join(',') %}{% set v1 = m2.a ~ m2.b ~ m2.z %}"+
		"{% set m3 = m2|merge({'a': 'OVER', 'x': 1}) %}{% set ks = m2|keys %}{% set kr = ks|reverse %}{% set kq = ks|merge(['q'])|sort %}"+
		"{{ k1 }}|{{ m2|keys|join(',') }}|{{ ks|join(',') }}|{{ v1 }}|{{ m2.a ~ m2.b ~ m2.z }}|{{ m2|length }}{{ m3|length }}{{ m|length }}|"+
		"{% set p = ss|slice(0, 2) %}{% set p1 = p|join(',') %}{% set pq = p|merge(['N']) %}{% set pr = p|reverse %}{% set w = ss|reverse %}{{ p1 }}|{{ p|join(',') }}|{{ ss|join(',') }}", ctx)
	symCover("rendered")
	symAssert(err == nil, "renders")
	vals := a + b + a
	symAssert(out == "a,b,k,z|a,b,k,z|a,b,k,z|"+vals+"|"+vals+"|453|"+b+","+a+"|"+b+","+a+"|"+b+","+a, "map-and-typed-slice-filter-results-not-changed-by-later-filters")
}
