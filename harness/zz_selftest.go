package twig

// Translator validation (not a property): a concrete template (its bytes come from the replay
// vector) is registered and rendered with a fixed rich context; everything observable is recorded.
// selftest.py runs this entry on the template literals of the repository's own test files both
// natively and in the engine's concrete mode and compares the observations.
func VH_Selftest() {
	n := symChoice(2000)
	src := symString(n)
	e := New()
	e.RegisterString("inc", "<{{ x }}>")
	e.RegisterString("base", "B[{% block b %}d{% endblock %}|{% block content %}c{% endblock %}]")
	e.RegisterString("lib", "{% macro m(p, q='D') %}({{ p }},{{ q }}){% endmacro %}")
	err := e.RegisterString("t", src)
	symObserve("parse-err", err)
	if err != nil {
		return
	}
	out, err := e.Render("t", map[string]interface{}{
		"x": "V<&", "name": "World", "text": "Hello world", "prefix": "Hello", "items": []interface{}{"a", "b", "c"},
		"a": []interface{}{"p", "q"}, "m": map[string]interface{}{"k": "v", "j": 2}, "n": 3, "f": 1.5, "t": true, "z": nil,
		"user": map[string]interface{}{"name": "Ann", "age": 30, "tags": []interface{}{"x", "y"}}, "numbers": []interface{}{3, 1, 2},
		"value": -5, "price": 1234.567, "html": "<b>bold</b>", "empty": "", "list": []string{"s1", "s2"}, "count": 0,
	})
	symObserve("render-err", err)
	symObserve("out", out)
}
