package twig

// C14 kernel obligations: the two tokenizers called directly, so the >4096 scanner is
// reached with short symbolic strings.

func vhTokenize(s string, opt bool) ([]Token, error) {
	t := GetTokenizer(s, 0)
	var ts []Token
	var err error
	if opt {
		ts, err = t.TokenizeOptimized()
	} else {
		ts, err = t.TokenizeHtmlPreserving()
	}
	if err == nil {
		t.ApplyWhitespaceControl()
	}
	out := append([]Token(nil), ts...)
	ReleaseTokenizer(t)
	return out, err
}

func vhParseToks(toks []Token) (Node, error) {
	p := &Parser{tokens: toks}
	p.initBlockHandlers()
	nodes, err := p.parseOuterTemplate()
	if err != nil {
		return nil, err
	}
	return NewRootNode(nodes, 1), nil
}

func vhRenderNode(e *Engine, n Node, ctx map[string]interface{}) (string, error) {
	t := &Template{name: "t", nodes: n, env: e.environment, engine: e}
	return t.Render(ctx)
}

// VH_C14_Agree: for every source s (|s| <= N, every byte value) the small-template tokenizer and the
// large-template tokenizer lead to the same acceptance and the same rendered bytes.
func VH_C14_Agree() {
	n := symChoice(symParam("N", 5) + 1)
	s := symString(n)
	a, ea := vhTokenize(s, false)
	b, eb := vhTokenize(s, true)
	symCover("tokenized")
	var na, nb Node
	if ea == nil {
		na, ea = vhParseToks(a)
	}
	if eb == nil {
		nb, eb = vhParseToks(b)
	}
	symAssert((ea == nil) == (eb == nil), "same-acceptance")
	if ea == nil && eb == nil {
		symCover("both-parse")
		e := New()
		x := symString(1)
		ctx := map[string]interface{}{"x": x, "a": "A"}
		oa, ra := vhRenderNode(e, na, ctx)
		ob, rb := vhRenderNode(e, nb, ctx)
		symAssert((ra == nil) == (rb == nil), "same-render-error")
		if ra == nil && rb == nil {
			symCover("both-render")
			symAssert(oa == ob, "same-output")
		}
	}
}

// segments of template syntax: whole tags, halves of paired tags, comments, delimiters inside string
// literals, stray delimiter characters, whitespace-control variants
var vhC14Segs = []string{
	"t ", "{{ x }}", "{% if x %}", "{% else %}", "{% endif %}", "{% verbatim %}", "{% endverbatim %}", "{# c #}", "{#- {{ x }} -#}",
	"{%- set y = 1 -%}", "{{ '{#' }}", "\\", "{", "#}", "%}", "}}", "'", "{#", "{{", "{%",
	"{{- x -}}", "{% for i in [1, 2] %}", "{% endfor %}", "{% set y = x %}", "{{ y }}", "{{ \"%}\" ~ '}}' }}", "\n ", "{{ x|upper }}", "{% raw %}", "{% endraw %}",
}

// VH_C14_Segments: sources built from K segments of template syntax (every sequence): the two
// tokenizers lead to the same acceptance, the same render error-ness and the same bytes.
func VH_C14_Segments() {
	k := 1 + symChoice(symParam("K", 3))
	s := ""
	for i := 0; i < k; i++ {
		s += vhC14Segs[symChoice(symParam("S", len(vhC14Segs)))]
	}
	a, ea := vhTokenize(s, false)
	b, eb := vhTokenize(s, true)
	symCover("tokenized")
	var na, nb Node
	if ea == nil {
		na, ea = vhParseToks(a)
	}
	if eb == nil {
		nb, eb = vhParseToks(b)
	}
	symAssert((ea == nil) == (eb == nil), "same-acceptance")
	if ea == nil && eb == nil {
		symCover("both-parse")
		e := New()
		x := symStringIn(1, "a0 ")
		ctx := map[string]interface{}{"x": x, "a": "A"}
		oa, ra := vhRenderNode(e, na, ctx)
		ob, rb := vhRenderNode(e, nb, ctx)
		symAssert((ra == nil) == (rb == nil), "same-render-error")
		if ra == nil && rb == nil {
			symCover("both-render")
			symAssert(oa == ob, "same-output")
		}
	}
}
