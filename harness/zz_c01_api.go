package twig

import (
	"errors"
	"runtime"
	"strconv"
)

// C01: rendering is repeatable and independent of everything rendered before. Public API only.

type vhC01Tpl struct {
	name string
	src  string
}

// one engine configuration: all templates registered under their names; "main" templates are rendered
var vhC01Lib = []vhC01Tpl{
	{"inc", "<{{ x }}|{{ w }}>"},
	{"base", "B[{% block b %}d{{ x }}{% endblock %}|{% block c %}c{% endblock %}]"},
	{"mid", "{% extends 'base' %}{% block b %}m({{ parent() }}){% endblock %}"},
	{"lib", "{% macro m(p, q='D') %}({{ p }},{{ q }}){% endmacro %}{% macro n() %}N{% endmacro %}"},
	{"dirA/p", "PA{{ x }}"},
	{"dirB/p", "PB{{ x }}"},
}

var vhC01Main = []vhC01Tpl{
	{"text", "plain text only"},
	{"print", "a{{ x }}b{{ y }}c"},
	{"if", "{% if x %}T{{ x }}{% elseif y %}E{% else %}F{% endif %}"},
	{"for", "{% for i in xs %}{{ loop.index }}:{{ i }},{% else %}none{% endfor %}"},
	{"set", "{% set z = x ~ '!' %}{{ z }}{{ z|upper }}"},
	{"filter", "{{ x|upper|lower|length }}{{ xs|join('-') }}{{ xs|first }}"},
	{"include", "[{% include 'inc' %}{% include 'inc' with {'w': 1} %}{% include 'inc' only %}]"},
	{"extends", "{% extends 'base' %}{% block b %}C{{ x }}{% endblock %}"},
	{"extends2", "{% extends 'mid' %}{% block c %}cc{% endblock %}"},
	{"import", "{% import 'lib' as l %}{{ l.m(x) }}{{ l.m(x, y) }}{{ l.n() }}"},
	{"from", "{% from 'lib' import m as g, n %}{{ g(1) }}{{ n() }}"},
	{"macro", "{% macro k(a, b=2) %}<{{ a }}{{ b }}>{% endmacro %}{{ k(x) }}{{ _self.k(x, y) }}"},
	{"apply", "{% apply upper %}a{{ x }}b{% endapply %}"},
	{"spaceless", "{% spaceless %}<p> {{ x }} </p>  <b>q</b>{% endspaceless %}"},
	{"verbatim", "{% verbatim %}{{ x }}{% endverbatim %}{# c #}"},
	{"expr", "{{ x ~ y }}{{ n + 1 }}{{ n * 2 }}{{ x == y }}{{ not x }}{{ x ? 'a' : 'b' }}{{ [1, x][1] }}{{ {'k': x}['k'] }}"},
	{"tests", "{% if x is defined %}D{% endif %}{% if u is not defined %}U{% endif %}{% if n is odd %}O{% endif %}"},
	{"do", "{% do 1 %}{% set q = 5 %}{{ q }}"},
	{"nested", "{% for i in xs %}{% for j in xs %}{{ i }}{{ j }}{{ loop.index }}{% endfor %}{{ loop.index }};{% endfor %}"},
	{"fail-filter", "a{{ x|boom }}b"},
	{"fail-include", "a{% include 'missing' %}b"},
	{"fail-func", "{% for i in xs %}{{ boomfn(i) }}{% endfor %}"},
	{"range", "{% for i in range(1, 3) %}{{ i }}{% endfor %}{{ max(1, n) }}"},
	{"block-loop", "{% for i in xs %}{% block r %}[{{ i }}]{% endblock %}{% endfor %}"},
	// a sandboxed include (the engine has a security policy) and a template that uses filters the
	// policy forbids at top level, where they are allowed: the sandbox flag must not outlive the include
	{"sandboxed-include", "[{% include 'inc' sandboxed %}]"},
	{"forbidden-top", "{{ x|replace('a', 'b') }}{{ n|number_format }}{{ xs|keys|length }}"},
	// relative names inside macro bodies, in two directories
	{"dirA/m", "{% macro m() %}{% include './p' %}{% endmacro %}{{ _self.m() }}{% include './p' %}"},
	{"dirB/m", "{% macro m() %}{% include './p' %}{% endmacro %}{{ _self.m() }}{% include './p' %}"},
	// undefined names and failing operands of default: with strict variables these are errors, and what
	// they are must not depend on what failed before
	{"undefined", "a{{ undefinedvar }}b{{ u.attr }}c"},
	{"default-ok", "{{ undefinedvar|default('d') }}{{ x|default('e') }}"},
	{"default-fail", "{{ xs[7]|default('none') }}"},
	{"default-fail2", "{{ (n / 0)|default('none') }}{{ undefinedvar }}"},
	{"empty-branches", "{% if x %}{% else %}E{% endif %}{% for i in xs %}{% endfor %}{% if not x %}{% elseif y %}{% else %}F{% endif %}"},
}

// templates used as "what was rendered before" in histories: one per pooled-object family
var vhC01Others = []string{"default-fail", "default-fail2", "undefined", "for", "include", "extends2", "import", "macro", "apply", "nested", "fail-func", "sandboxed-include", "dirB/m"}

var vhErrBoom = errors.New("BOOM")

// vhC01Engine: an engine holding the library templates and the named main templates.
// strict-variables mode of every engine of the current run (set by the entry points)
var vhC01Strict bool

func vhC01Engine(mains ...string) *Engine {
	e := New()
	e.SetStrictVars(vhC01Strict)
	e.EnableSandbox(NewDefaultSecurityPolicy())
	e.AddFilter("boom", func(v interface{}, a ...interface{}) (interface{}, error) { return nil, vhErrBoom })
	e.AddFunction("boomfn", func(a ...interface{}) (interface{}, error) { return nil, vhErrBoom })
	for _, t := range vhC01Lib {
		e.RegisterString(t.name, t.src)
	}
	for _, t := range vhC01Main {
		for _, m := range mains {
			if m == t.name {
				e.RegisterString(t.name, t.src)
			}
		}
	}
	return e
}

func vhC01Ctx() map[string]interface{} {
	x := symStringIn(symChoice(2), vhValAlphabet)
	y := symStringIn(1, vhValAlphabet)
	n := symInt()
	symAssume(n >= -3 && n <= 3)
	nx := symChoice(3)
	xs := make([]interface{}, nx)
	for i := range xs {
		xs[i] = symStringIn(1, vhValAlphabet)
	}
	return map[string]interface{}{"x": x, "y": y, "n": n, "xs": xs}
}

// vhC01CtxSmall: one symbolic byte and one symbolic small int; fixed list shape.
func vhC01CtxSmall() map[string]interface{} {
	x := symStringIn(1, vhValAlphabet)
	n := symInt()
	symAssume(n >= 0 && n <= 1)
	return map[string]interface{}{"x": x, "y": "y", "n": n, "xs": []interface{}{x, "q"}}
}

type vhResult struct {
	out string
	err bool
}

func vhRender(e *Engine, name string, ctx map[string]interface{}) vhResult {
	o, err := e.Render(name, ctx)
	return vhResult{o, err != nil}
}

// VH_C01_Repeat: three renders on one engine and one on a fresh engine give the same result.
func VH_C01_Repeat() {
	vhC01Strict = symBool()
	k := symParam("K", -1)
	if k < 0 {
		k = symChoice(len(vhC01Main))
	}
	name := vhC01Main[k].name
	symTag("tpl:" + name)
	ctx := vhC01Ctx()
	// the reference first: a fresh engine while every pool of the process is still empty
	fresh := vhRender(vhC01Engine(name), name, ctx)
	e := vhC01Engine(name)
	r1 := vhRender(e, name, ctx)
	r2 := vhRender(e, name, ctx)
	r3 := vhRender(e, name, ctx)
	symCover("rendered")
	if !r1.err {
		symCover("rendered-ok")
	}
	symAssert(r2 == r1, "second-render-equal")
	symAssert(r3 == r1, "third-render-equal")
	symAssert(fresh == r1, "fresh-engine-equal")
}

// VH_C01_History: a history of up to H operations (renders of other templates, failing renders,
// registration and parsing of new templates, activity on another engine, cache toggles) precedes the
// render under test; the result equals that of a fresh engine.
func VH_C01_History() {
	vhC01Strict = symBool()
	h := symParam("H", 2)
	k := symChoice(len(vhC01Main))
	name := vhC01Main[k].name
	ctx := vhC01CtxSmall()
	name2 := vhC01Others[symChoice(len(vhC01Others))]
	// the reference first: a fresh engine while every pool of the process is still empty
	fresh := vhRender(vhC01Engine(name), name, ctx)
	keep := string(append([]byte(nil), fresh.out...)) // a private copy of the bytes returned
	e := vhC01Engine(name, name2, "fail-filter")
	other := vhC01Engine(name2)
	tag := "tpl:" + name + " other:" + name2 + " hist:"
	intact := true
	for i := 0; i < h; i++ {
		if fresh.out != keep { // looked at after every operation: the next render may put the same bytes back
			intact = false
		}
		op := symChoice(11)
		switch op {
		case 9: // configuration changed and restored
			e.SetCache(false)
			vhRender(e, name2, ctx)
			vhRender(e, name, ctx)
			e.SetCache(true)
			tag += "C"
		case 10:
			e.SetDevelopmentMode(true)
			vhRender(e, name, ctx)
			e.SetDevelopmentMode(false)
			tag += "D"
		case 8: // a garbage collection: sync.Pool contents are dropped
			runtime.GC()
			runtime.GC()
			tag += "G"
		case 0: // nothing
			tag += "-"
		case 1:
			vhRender(e, name2, ctx)
			tag += "r"
		case 2:
			vhRender(e, "fail-filter", ctx)
			tag += "F"
		case 3:
			e.RegisterString("extra", "{% for q in xs %}{{ q }}{% endfor %}{{ x }}")
			vhRender(e, "extra", ctx)
			tag += "R"
		case 4:
			e.ParseTemplate("{% if x %}{{ x|upper }}{% endif %}{% include 'inc' %}")
			tag += "P"
		case 5:
			vhRender(other, name2, ctx)
			tag += "o"
		case 6:
			e.ParseTemplate("{% if x %}{{ unclosed")
			tag += "E"
		case 7:
			vhRender(e, name, map[string]interface{}{"x": "OTHER", "y": "CTX", "n": 7, "xs": []interface{}{"p", "q", "r", "s"}})
			tag += "c"
		}
	}
	symTag(tag)
	if fresh.out != keep {
		intact = false
	}
	got := vhRender(e, name, ctx)
	symCover("rendered")
	symAssert(got == fresh, "history-independent")
	// a result handed out earlier is a value: later renders do not change it
	symAssert(intact && fresh.out == keep, "earlier-result-still-intact")
}

// ---- C01.global: results that could be remembered process-wide ----------------------------------
// A reference render in the same process would itself be part of the history of everything that is
// process-wide (a package-level cache outlives engines), so here the reference is a model: each
// template's expected output is computed by the harness directly from the context. A sequence of H
// renders with independent symbolic contexts is run on engines sharing the process; every render of
// the sequence must agree with the model.

type vhC01A struct{ V, W string }
type vhC01B struct{ W, V string } // same field names, other positions
type vhC01C struct {
	V int
	W string
}

func (vhC01C) Name() string { return "meth" }

type vhC01G struct {
	name string
	src  string
	want func(x string, sh int) string
}

func vhC01Has(x, p string) bool { return len(x) >= len(p) && x[:len(p)] == p }

func vhC01Obj(x string, sh int) interface{} {
	switch sh {
	case 0:
		return vhC01A{x, "w"}
	case 1:
		return vhC01B{"w", x}
	case 2:
		return &vhC01A{x, "w"}
	case 3:
		return map[string]interface{}{"V": x, "W": "w"}
	}
	return vhC01C{7, x}
}

func vhC01ObjV(x string, sh int) string {
	if sh == 4 {
		return "7"
	}
	return x
}
func vhC01ObjW(x string, sh int) string {
	if sh == 4 {
		return x
	}
	return "w"
}

var vhC01Globals = []vhC01G{
	{"m-cs", "{% if x matches '/^z/' %}M{% else %}N{% endif %}", func(x string, sh int) string {
		if vhC01Has(x, "z") {
			return "M"
		}
		return "N"
	}},
	{"m-ci", "{% if x matches '/^z/i' %}M{% else %}N{% endif %}", func(x string, sh int) string {
		if vhC01Has(x, "z") || vhC01Has(x, "Z") {
			return "M"
		}
		return "N"
	}},
	{"m-cs2", "{% if x matches '/^Z/' %}M{% else %}N{% endif %}", func(x string, sh int) string {
		if vhC01Has(x, "Z") {
			return "M"
		}
		return "N"
	}},
	{"m-plain", "{% if x matches '^z' %}M{% else %}N{% endif %}", func(x string, sh int) string {
		if vhC01Has(x, "z") {
			return "M"
		}
		return "N"
	}},
	{"attr-v", "{{ o.V }}", func(x string, sh int) string { return vhC01ObjV(x, sh) }},
	{"attr-w", "{{ o.W }}", func(x string, sh int) string { return vhC01ObjW(x, sh) }},
	{"attr-vw", "{{ o.V }}{{ o.W }}|{{ o.V }}", func(x string, sh int) string {
		return vhC01ObjV(x, sh) + vhC01ObjW(x, sh) + "|" + vhC01ObjV(x, sh)
	}},
	{"attr-meth", "{{ o.Name }}", func(x string, sh int) string {
		if sh == 4 {
			return "meth"
		}
		return ""
	}},
	{"split", "{{ x|split('z')|join('-') }}", func(x string, sh int) string {
		out := ""
		for i := 0; i < len(x); i++ {
			if x[i] == 'z' {
				out += "-"
			} else {
				out += x[i : i+1]
			}
		}
		return out
	}},
	{"replace", "{{ x|replace('z', 'Q') }}", func(x string, sh int) string {
		out := ""
		for i := 0; i < len(x); i++ {
			if x[i] == 'z' {
				out += "Q"
			} else {
				out += x[i : i+1]
			}
		}
		return out
	}},
}

// VH_C01_Global: H renders (template, context and engine chosen symbolically at every step) on two
// engines of one process; every one agrees with the model.
func VH_C01_Global() {
	h := symParam("H", 2)
	e1, e2 := New(), New()
	for _, g := range vhC01Globals {
		e1.RegisterString(g.name, g.src)
		e2.RegisterString(g.name, g.src)
	}
	tag := "seq:"
	for i := 0; i < h; i++ {
		k := symChoice(len(vhC01Globals))
		g := vhC01Globals[k]
		x := symStringIn(symChoice(symParam("L", 2)+1), "zZa")
		sh := 0
		if len(g.name) > 4 && g.name[:4] == "attr" {
			sh = symChoice(5)
		}
		e := e1
		if i > 0 && symBool() {
			e = e2
		}
		tag += g.name + "/" + string(rune('0'+sh)) + ","
		got, err := e.Render(g.name, map[string]interface{}{"x": x, "o": vhC01Obj(x, sh)})
		if i == h-1 {
			symTag(tag)
			symCover("rendered")
		}
		symAssert(err == nil, "model-no-error")
		symAssert(got == g.want(x, sh), "agrees-with-model")
	}
}

// ---- C01.shared: a *Template object known to more than one engine ----------------------------------
// ParseTemplate / Load hand out *Template objects and RegisterTemplate accepts them, so the same
// object can be registered with several engines. What engine A renders for it must not depend on
// what other engines did with the object.
func vhC01SharedEngine(tag string) *Engine {
	e := New()
	e.RegisterString("inc", "i"+tag+"{{ x }}")
	e.RegisterString("base", "B"+tag+"<{% block b %}{% endblock %}>")
	e.AddFilter("mark", func(v interface{}, a ...interface{}) (interface{}, error) { return "m" + tag, nil })
	e.AddGlobal("g", "g"+tag)
	return e
}

var vhC01SharedSrc = []string{
	"[{% include 'inc' %}|{{ x|mark }}|{{ g }}]",
	"{% extends 'base' %}{% block b %}{{ x|mark }}{% endblock %}",
	"{{ include('inc') }}{{ x }}",
}

func VH_C01_Shared() {
	h := symParam("H", 2)
	k := symChoice(len(vhC01SharedSrc))
	x := symStringIn(1, vhValAlphabet)
	ctx := map[string]interface{}{"x": x}
	// reference: an engine that is alone in the process
	ref := vhC01SharedEngine("A")
	rt, err := ref.ParseTemplate(vhC01SharedSrc[k])
	if err != nil {
		symAssert(false, "template-parses")
		return
	}
	ref.RegisterTemplate("t", rt)
	fresh := vhRender(ref, "t", ctx)
	a, b := vhC01SharedEngine("A"), vhC01SharedEngine("B")
	tp, _ := a.ParseTemplate(vhC01SharedSrc[k])
	a.RegisterTemplate("t", tp)
	tag := "src:" + strconv.Itoa(k) + " hist:"
	for i := 0; i < h; i++ {
		switch symChoice(7) {
		case 0:
			tag += "-"
		case 1: // the same object registered with another engine, under the same name
			b.RegisterTemplate("t", tp)
			tag += "S"
		case 2: // ... under another name
			b.RegisterTemplate("u", tp)
			tag += "U"
		case 3: // the other engine renders what it has
			vhRender(b, "t", ctx)
			vhRender(b, "u", ctx)
			tag += "r"
		case 4: // rendered through the object itself
			tp.Render(ctx)
			tag += "d"
		case 5: // a third, short-lived engine takes it too
			vhC01SharedEngine("C").RegisterTemplate("t", tp)
			tag += "C"
		case 6: // engine A renders it
			vhRender(a, "t", ctx)
			tag += "a"
		}
	}
	symTag(tag)
	got := vhRender(a, "t", ctx)
	symCover("rendered")
	symAssert(got == fresh, "shared-template-renders-as-on-a-fresh-engine")
	o2, e2 := tp.Render(ctx)
	symAssert(vhResult{o2, e2 != nil} == fresh, "template-object-renders-as-on-a-fresh-engine")
}
