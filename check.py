#!/usr/bin/env python3
"""Driver for the solver-based checks of semihalev/twig.

  python3 /verif/check.py <property-id> --tier quick|thorough
  python3 /verif/check.py --replay /verif/replays/<file>.json

For every obligation of the property (checks/<id>.json) the symbolic executor (bin/symx) is run on
/repo's current working tree with the harness overlay; every violation it reports is looked up in
known_findings.json and otherwise replayed natively (go test -overlay) before it is printed as
VIOLATION. Evidence is written to evidence/<id>.json on every run.
"""
import json, os, subprocess, sys, tempfile, time, shutil, glob, hashlib, random

VERIF = os.path.dirname(os.path.abspath(__file__))
REPO = os.environ.get("VERIF_REPO", "/repo")
SYMX = os.path.join(VERIF, "bin", "symx")
HARNESS = os.path.join(VERIF, "harness")
ENV = dict(os.environ, GOFLAGS="-mod=mod", GOPROXY="off")
ENV.pop("GOSUMDB", None)  # GOSUMDB=off breaks the cached-toolchain switch /repo's go.mod needs


def build_engine():
    srcs = glob.glob(os.path.join(VERIF, "engine", "*.go")) + [os.path.join(VERIF, "engine", "go.mod")]
    if os.path.exists(SYMX) and all(os.path.getmtime(s) <= os.path.getmtime(SYMX) for s in srcs):
        return
    os.makedirs(os.path.dirname(SYMX), exist_ok=True)
    subprocess.run(["go", "build", "-o", SYMX, "."], cwd=os.path.join(VERIF, "engine"), env=ENV, check=True)


def load_known():
    p = os.path.join(VERIF, "known_findings.json")
    if not os.path.exists(p):
        return []
    return json.load(open(p))["findings"]


def ident(obl, v):
    return "%s|%s|%s|%s" % (obl, v["kind"], v["assert_id"], ",".join(sorted(v.get("tags") or [])))


def run_symx(entry, params, opts, timeout_s, out_json, extra=()):
    cmd = [SYMX, "-entry", entry, "-json", out_json, "-q", "-harness", HARNESS, "-repo", REPO,
           "-timeout", "%ds" % timeout_s, "-workers", str(opts.get("workers", 16)),
           "-unwind", str(opts.get("unwind", 5000)), "-panics", opts.get("panics", "cut"),
           "-samples", str(opts.get("samples", 8))]
    if "depth" in opts:
        cmd += ["-depth", str(opts["depth"])]
    if "fuel" in opts:
        cmd += ["-fuel", str(opts["fuel"])]
    if "maxpaths" in opts:
        cmd += ["-maxpaths", str(opts["maxpaths"])]
    if opts.get("unwind_in"):
        cmd += ["-unwind-in", opts["unwind_in"]]
    if opts.get("solver"):
        cmd += ["-solver", opts["solver"]]
    if params:
        cmd += ["-param", ",".join("%s=%d" % kv for kv in sorted(params.items()))]
    cmd += list(extra)
    try:
        p = subprocess.run(cmd, env=ENV, stdout=subprocess.PIPE, stderr=subprocess.STDOUT, text=True,
                           timeout=timeout_s + 120)
        out, rc = p.stdout, p.returncode
    except subprocess.TimeoutExpired as ex:
        out, rc = (ex.stdout or "") + "\nDRIVER-TIMEOUT", 124
    res = None
    if os.path.exists(out_json):
        try:
            res = json.load(open(out_json))
        except Exception:
            res = None
    return rc, out, res


REPLAY_TEST = '''package twig

import (
	"encoding/json"
	"fmt"
	"os"
	"strings"
	"testing"
)

type vhReplaySpec struct {
	Params  map[string]int `json:"params"`
	Vectors [][]uint64     `json:"vectors"`
	Repeat  int            `json:"repeat"`
}

func TestVHReplay(t *testing.T) {
	data, err := os.ReadFile(os.Getenv("VH_REPLAY"))
	if err != nil {
		t.Fatal(err)
	}
	var spec vhReplaySpec
	if err := json.Unmarshal(data, &spec); err != nil {
		t.Fatal(err)
	}
	for k, v := range spec.Params {
		vhParams[k] = v
	}
	out, _ := os.Create(os.Getenv("VH_OUT"))
	defer out.Close()
	for i, vec := range spec.Vectors {
		for rep := 0; rep < spec.Repeat || rep == 0; rep++ {
		vhReset(vec)
		func() {
			defer func() {
				if r := recover(); r != nil {
					if s, ok := r.(vhStop); ok {
						_ = s
						vhObserved = append(vhObserved, "END-infeasible")
						return
					}
					vhObserved = append(vhObserved, "PANIC")
					fmt.Fprintf(out, "PANICMSG %d %v\\n", i, r)
				}
			}()
			fmt.Fprintf(out, "START %d\\n", i)
			out.Sync()
			__ENTRY__()
		}()
		if len(vhFailed) > 0 || rep+1 >= spec.Repeat {
			break
		}
		}
		fmt.Fprintf(out, "VEC %d :: %s\\n", i, strings.Join(vhObserved, " ;; "))
		out.Sync()
	}
}
'''


def native_run(entry, params, vectors, dropped_files, timeout_s=60, race=False, repeat=1, fresh=False):
    """Runs the harness entry natively on each vector. Returns list of observation strings (or 'HANG'/'CRASH').
    fresh=True: every vector runs in a process of its own (for obligations about process-wide state)."""
    if fresh and len(vectors) > 1:
        obs, logs, msgs = [], "", {}
        for i, v in enumerate(vectors):
            o, l, m = native_run(entry, params, [v], dropped_files, timeout_s, race, repeat)
            obs.append(o[0])
            logs += l or ""
            if 0 in m:
                msgs[i] = m[0]
        return obs, logs, msgs
    tmp = tempfile.mkdtemp(prefix="vh-replay-")
    try:
        repl = {}
        for h in sorted(glob.glob(os.path.join(HARNESS, "zz_*.go"))):
            if os.path.basename(h) in dropped_files:
                continue
            repl[os.path.join(REPO, os.path.basename(h))] = h
        # the repository's own test files are not needed for replay: overlay them with empty stubs so that
        # replay neither depends on them compiling nor pays for compiling them
        stub = os.path.join(tmp, "stub_test.go")
        open(stub, "w").write("package twig\n")
        for tfile in glob.glob(os.path.join(REPO, "*_test.go")):
            if not os.path.basename(tfile).startswith("zz_"):
                repl[tfile] = stub
        tf = os.path.join(tmp, "zz_replay_test.go")
        open(tf, "w").write(REPLAY_TEST.replace("__ENTRY__", entry))
        repl[os.path.join(REPO, "zz_replay_test.go")] = tf
        ov = os.path.join(tmp, "overlay.json")
        json.dump({"Replace": repl}, open(ov, "w"))
        spec = os.path.join(tmp, "spec.json")
        json.dump({"params": params or {}, "vectors": vectors, "repeat": repeat}, open(spec, "w"))
        outf = os.path.join(tmp, "out.txt")
        env = dict(ENV, VH_REPLAY=spec, VH_OUT=outf)
        cmd = ["go", "test", "-vet=off", "-count=1", "-overlay", ov, "-run", "^TestVHReplay$",
               "-timeout", "%ds" % timeout_s, "."]
        if race:
            cmd.insert(2, "-race")
        try:
            p = subprocess.run(cmd, cwd=REPO, env=env, stdout=subprocess.PIPE, stderr=subprocess.STDOUT, text=True,
                               timeout=timeout_s + 180)
            log = p.stdout
        except subprocess.TimeoutExpired as ex:
            log = (ex.stdout or "") + "\nDRIVER-TIMEOUT"
        obs = [None] * len(vectors)
        started = -1
        msgs = {}
        if os.path.exists(outf):
            for line in open(outf, errors="replace"):
                line = line.rstrip("\n")
                if line.startswith("START "):
                    started = int(line.split()[1])
                elif line.startswith("PANICMSG "):
                    parts = line.split(" ", 2)
                    msgs[int(parts[1])] = parts[2] if len(parts) > 2 else ""
                elif line.startswith("VEC "):
                    head, _, rest = line.partition(" :: ")
                    obs[int(head.split()[1])] = rest
        if started >= 0 and obs[started] is None:
            # the process died inside vector `started`: test timeout (hang), fatal error or os.Exit
            if "panic: test timed out" in log or "DRIVER-TIMEOUT" in log:
                obs[started] = "HANG"
            else:
                obs[started] = "CRASH"
            # vectors after it did not run: run them in a fresh process
            rest_idx = [i for i in range(started + 1, len(vectors))]
            if rest_idx:
                sub, _, _ = native_run(entry, params, [vectors[i] for i in rest_idx], dropped_files, timeout_s, race, repeat)
                for i, o in zip(rest_idx, sub):
                    obs[i] = o
        return obs, log, msgs
    finally:
        shutil.rmtree(tmp, ignore_errors=True)


def engine_concrete(entry, params, vectors, opts):
    tmp = tempfile.mkdtemp(prefix="vh-vec-")
    try:
        vf = os.path.join(tmp, "vectors.txt")
        open(vf, "w").write("\n".join(",".join(str(x) for x in v) if v else "" for v in vectors) + "\n")
        # an empty vector would be an empty line and be skipped: represent it as a single 0 (unused)
        open(vf, "w").write("\n".join(",".join(str(x) for x in (v if v else [0])) for v in vectors) + "\n")
        cmd = [SYMX, "-entry", entry, "-harness", HARNESS, "-repo", REPO, "-vectors", vf,
               "-unwind", str(opts.get("unwind", 5000))]
        if "depth" in opts:
            cmd += ["-depth", str(opts["depth"])]
        if "fuel" in opts:
            cmd += ["-fuel", str(opts["fuel"])]
        if params:
            cmd += ["-param", ",".join("%s=%d" % kv for kv in sorted(params.items()))]
        try:
            p = subprocess.run(cmd, env=ENV, stdout=subprocess.PIPE, stderr=subprocess.STDOUT, text=True, timeout=300)
        except subprocess.TimeoutExpired:
            return [None] * len(vectors)
        obs = []
        for line in p.stdout.splitlines():
            if line.startswith("VEC "):
                obs.append(line.partition(" :: ")[2])
        if len(obs) != len(vectors):
            return [None] * len(vectors)
        return obs
    finally:
        shutil.rmtree(tmp, ignore_errors=True)


def confirms(v, obs):
    """Does the native observation string confirm engine violation v?"""
    if obs is None:
        return False
    items = obs.split(" ;; ") if obs else []
    k = v["kind"]
    if k == "assert":
        return ("FAIL:" + v["assert_id"]) in items
    if k == "panic":
        return "PANIC" in items or obs == "CRASH"
    if k in ("unwind", "deadlock"):
        return obs == "HANG" or obs == "CRASH"
    if k in ("frame", "memory", "race", "ownership"):
        return any(i.startswith("FAIL:") for i in items) or (k == "ownership" and obs in ("CRASH", "HANG"))
    return False


def norm_obs(o):
    return o


def check_property(pid, tier, seed):
    t_start = time.time()
    spec = json.load(open(os.path.join(VERIF, "checks", pid + ".json")))
    known = [k for k in load_known() if k["property"] == pid]
    known_ids = {"%s|%s|%s|%s" % (k["obligation"], k["kind"], k["assert_id"], ",".join(sorted(k.get("tags") or []))): k
                 for k in known if k.get("status") == "known"}
    os.makedirs(os.path.join(VERIF, "replays"), exist_ok=True)
    os.makedirs(os.path.join(VERIF, "evidence"), exist_ok=True)
    for old in glob.glob(os.path.join(VERIF, "replays", pid + ".*.json")):
        os.remove(old)
    tmp = tempfile.mkdtemp(prefix="vh-check-")
    obl_reports = []
    violations = []     # confirmed, not known
    known_hit = {}
    unconfirmed = []
    inconclusive = []
    tot = dict(paths=0, forks=0, enum=0, queries=0, solver_s=0.0, validated=0, mismatch=0)
    funcs, stdf, models = {}, {}, {}
    samples_out = []
    dropped_all = {}
    try:
        only = [x for x in os.environ.get("VERIF_ONLY", "").split(",") if x]  # development aid: named obligations only, no evidence written
        for ob in spec["obligations"]:
            tcfg = ob.get(tier) or ob.get("quick")
            if tcfg is None or tcfg.get("skip"):
                continue
            if only and ob["id"] not in only:
                continue
            opts = dict(spec.get("options", {}))
            opts.update(ob.get("options", {}))
            opts.update(tcfg.get("options", {}))
            ladder = tcfg.get("ladder") or [{}]
            rep = {"obligation": ob["id"], "entry": ob["entry"], "what": ob.get("what", ""), "rungs": []}
            res = None
            used = None
            for rung in ladder:
                oj = os.path.join(tmp, "res.json")
                if os.path.exists(oj):
                    os.remove(oj)
                rc, out, r = run_symx(ob["entry"], rung, opts, tcfg.get("timeout_s", 150), oj)
                rr = {"params": rung, "rc": rc}
                if r is None or rc not in (0,):
                    rr["error"] = (out or "")[-600:]
                    if r is not None and r.get("entry_missing"):
                        rr["status"] = "dropped"
                        rep["rungs"].append(rr)
                        res, used = r, rung
                        break
                    rr["status"] = "engine-error"
                    rep["rungs"].append(rr)
                    res = r
                    continue
                rr.update(paths=r["paths"], wall_s=round(r["wall_s"], 2), incomplete=r["incomplete"],
                          reason=r.get("incomplete_reason", ""))
                rep["rungs"].append(rr)
                res, used = r, rung
                if r["incomplete"] and r.get("incomplete_reason") in ("timeout", "maxpaths") and not r["violations"]:
                    rr["status"] = "bound-not-completed"
                    continue
                rr["status"] = "completed" if not r["incomplete"] else "completed-with-cut-paths"
                break
            if res is None or used is None or "paths" not in (res or {}):
                rep["verdict"] = "inconclusive(engine-error)"
                if res is not None and res.get("harness_dropped"):
                    rep["verdict"] = "dropped(harness no longer compiles)"
                    for d in res["harness_dropped"]:
                        dropped_all[d["file"]] = d["error"]
                elif res is not None and res.get("load_error"):
                    rep["verdict"] = "inconclusive(load-error)"
                    rep["load_error"] = res["load_error"][:500]
                inconclusive.append(rep["obligation"] + ": " + rep["verdict"])
                obl_reports.append(rep)
                continue
            for d in res.get("harness_dropped") or []:
                dropped_all[d["file"]] = d["error"]
            if res.get("entry_missing"):
                rep["verdict"] = "dropped(harness no longer compiles)"
                inconclusive.append(rep["obligation"] + ": " + rep["verdict"])
                obl_reports.append(rep)
                continue
            dropped_files = set(d["file"] for d in res.get("harness_dropped") or [])
            # cross-solver validation (thorough tier, obligations that ask for it): the same obligation at
            # its quick bound under z3 4.8, z3 5.1 and cvc5; path counts, path ends and violation identities
            # must agree, otherwise the verdict is inconclusive
            if tier == "thorough" and ob.get("cross_solver"):
                qrung = (ob.get("quick", {}).get("ladder") or [{}])[0]
                runs = []
                for sv in ("", "z3-new -in", "cvc5 --incremental --produce-models"):
                    o2 = dict(opts)
                    if sv:
                        o2["solver"] = sv
                    oj2 = os.path.join(tmp, "cross.json")
                    if os.path.exists(oj2):
                        os.remove(oj2)
                    rc2, out2, r2 = run_symx(ob["entry"], qrung, o2, ob.get("quick", {}).get("timeout_s", 300), oj2)
                    if r2 is None or "paths" not in r2:
                        runs.append({"solver": sv or "z3", "error": (out2 or "")[-200:]})
                        continue
                    runs.append({"solver": sv or "z3", "paths": r2["paths"], "path_ends": r2["path_ends"], "incomplete": r2["incomplete"],
                                 "violations": sorted(ident(ob["id"], v) for v in r2["violations"]), "solver_s": round(r2["solver_s"], 1)})
                rep["cross_solver"] = {"bound": qrung, "runs": runs}
                base = runs[0]
                agree = all("error" not in r and r["paths"] == base.get("paths") and r["path_ends"] == base.get("path_ends")
                            and r["violations"] == base.get("violations") for r in runs)
                rep["cross_solver"]["agree"] = agree
                if not agree:
                    inconclusive.append("%s: solvers disagree (%s)" % (ob["id"], ", ".join("%s:%s" % (r["solver"], r.get("paths", "error")) for r in runs)))
            tot["paths"] += res["paths"]
            tot["forks"] += res["forks_solver"]
            tot["enum"] += res["forks_enumerated"]
            tot["queries"] += res["queries"]
            tot["solver_s"] += res["solver_s"]
            for k, v in res["functions_encoded"].items():
                funcs[k] = funcs.get(k, 0) + v
            for k, v in res["stdlib_interpreted"].items():
                stdf[k] = stdf.get(k, 0) + v
            for k, v in res["models_used"].items():
                models[k] = models.get(k, 0) + v
            rep.update(bound=used, paths=res["paths"], forks_solver=res["forks_solver"], forks_enumerated=res["forks_enumerated"],
                       if_conversions=res["if_conversions"], queries=res["queries"], solver_s=round(res["solver_s"], 2),
                       wall_s=round(res["wall_s"], 2), path_ends=res["path_ends"], cover=res["cover"],
                       max_unwinding_seen=res["max_unwinding_seen"], unwind_bound=res["unwind_bound"],
                       incomplete=res["incomplete"], incomplete_reason=res.get("incomplete_reason", ""))
            cut = {k: v for k, v in res["path_end_details"].items() if not k.startswith("panic")}
            if cut:
                rep["paths_cut"] = dict(list(sorted(cut.items(), key=lambda kv: -kv[1]))[:8])
            pan = {k: v for k, v in res["path_end_details"].items() if k.startswith("panic")}
            if pan:
                rep["paths_cut_panic"] = dict(list(sorted(pan.items(), key=lambda kv: -kv[1]))[:8])
            # vacuity
            missing_cover = [c for c in ob.get("expect_cover", []) if res["cover"].get(c, 0) == 0]
            if missing_cover:
                rep["vacuous"] = missing_cover
                inconclusive.append("%s: vacuous (cover points never reached: %s)" % (ob["id"], ",".join(missing_cover)))
            # violations
            viols = res["violations"]
            unwind_is_violation = ob.get("unwind_is_violation", False)
            todo = []
            for v in viols:
                if v["kind"] == "unwind" and not unwind_is_violation:
                    inconclusive.append("%s: unwinding bound exceeded: %s" % (ob["id"], v["assert_id"]))
                    continue
                idn = ident(ob["id"], v)
                if idn in known_ids:
                    known_hit[idn] = known_ids[idn]
                    continue
                todo.append(v)
            if len(todo) > 24:
                # replay a spread of the reported identities: round-robin over (kind, assertion) groups,
                # evenly spaced inside each group, 24 in all
                rep["violations_not_replayed"] = len(todo) - 24
                groups = {}
                for v in todo:
                    groups.setdefault((v["kind"], v["assert_id"]), []).append(v)
                picked = []
                per = max(1, 24 // len(groups))
                for g in groups.values():
                    step = max(1, len(g) // per)
                    picked += g[::step][:per]
                rest = [v for v in todo if v not in picked]
                todo = (picked + rest)[:24]
            # a deadlock witness that reproduces natively hangs until the test deadline: replay at most two of
            # them individually; the goroutine stress entry decides the others
            dl_extra = []
            if ob.get("native_race_entry"):
                dl = [v for v in todo if v["kind"] == "deadlock"]
                if len(dl) > 2:
                    dl_extra = dl[2:]
                    todo = [v for v in todo if not any(v is x for x in dl_extra)]
                    rep["deadlock_witnesses_decided_by_stress_only"] = len(dl_extra)
            # native runs: violation vectors + sampled path witnesses (translator validation)
            smp = [s for s in res.get("samples", [])]
            vectors = [v["vector"] for v in todo] + [s["vector"] for s in smp]
            nat, log, msgs = ([], "", {})
            if vectors:
                nat, log, msgs = native_run(ob["entry"], used, vectors, dropped_files,
                                            timeout_s=ob.get("native_timeout_s", 40), repeat=ob.get("native_repeat", 1),
                                            fresh=bool(ob.get("native_fresh_process")))
            eng = engine_concrete(ob["entry"], used, vectors, opts) if vectors else []
            confirmed_here = []
            race_log = None
            for i, v in enumerate(todo):
                idn = ident(ob["id"], v)
                if v["kind"] in ("race", "ownership", "deadlock") and ob.get("native_race_entry") and not confirms(v, nat[i]):
                    if race_log is None:
                        robs, race_log, _ = native_run(ob["native_race_entry"], used, [[0], [1], [2], [3]], dropped_files, timeout_s=60, race=True)
                        race_log = (race_log or "") + " ".join(o or "" for o in robs)
                    if v["kind"] == "deadlock":
                        if "HANG" in race_log or "test timed out" in race_log or "all goroutines are asleep" in race_log:
                            nat[i] = "HANG"
                    elif "DATA RACE" in race_log or "FAIL:" in race_log or "fatal error" in race_log:
                        nat[i] = "FAIL:native-race-detector"
                if confirms(v, nat[i]):
                    h = hashlib.sha1(idn.encode()).hexdigest()[:10]
                    path = os.path.join(VERIF, "replays", "%s-%s.json" % (ob["id"], h))
                    json.dump({"property": pid, "obligation": ob["id"], "entry": ob["entry"], "params": used,
                               "vector": v["vector"], "kind": v["kind"], "assert_id": v["assert_id"], "tags": v.get("tags") or [],
                               "input_text": v.get("text", ""), "where": v.get("where", ""),
                               "native_race_entry": ob.get("native_race_entry", ""), "native_repeat": ob.get("native_repeat", 1),
                               "native_fresh_process": bool(ob.get("native_fresh_process")),
                               "native_observation": nat[i], "native_panic": msgs.get(i, "")}, open(path, "w"), indent=1)
                    violations.append((idn, v, path))
                    confirmed_here.append(idn)
                else:
                    unconfirmed.append({"identity": idn, "vector": v["vector"], "text": v.get("text", ""),
                                        "native_observation": nat[i]})
            if dl_extra:
                if race_log is None:
                    robs, race_log, _ = native_run(ob["native_race_entry"], used, [[0], [1], [2], [3]], dropped_files, timeout_s=60, race=True)
                    race_log = (race_log or "") + " ".join(o or "" for o in robs)
                hung = "HANG" in race_log or "test timed out" in race_log or "all goroutines are asleep" in race_log
                for v in dl_extra:
                    idn = ident(ob["id"], v)
                    if hung:
                        h = hashlib.sha1(idn.encode()).hexdigest()[:10]
                        path = os.path.join(VERIF, "replays", "%s-%s.json" % (ob["id"], h))
                        json.dump({"property": pid, "obligation": ob["id"], "entry": ob["entry"], "params": used,
                                   "vector": v["vector"], "kind": v["kind"], "assert_id": v["assert_id"], "tags": v.get("tags") or [],
                                   "input_text": v.get("text", ""), "where": v.get("where", ""),
                                   "native_race_entry": ob.get("native_race_entry", ""), "native_repeat": ob.get("native_repeat", 1),
                                   "native_observation": "HANG (stress entry)"}, open(path, "w"), indent=1)
                        violations.append((idn, v, path))
                        confirmed_here.append(idn)
                    else:
                        unconfirmed.append({"identity": idn, "vector": v["vector"], "text": v.get("text", ""), "native_observation": "stress entry did not hang"})
            # translator validation on the path witnesses
            val, mism = 0, []
            for j, s in enumerate(smp):
                i = len(todo) + j
                if nat[i] is None or eng[i] is None:
                    continue
                if "END-unsupported" in eng[i] or "END-internal" in eng[i]:
                    continue
                if nat[i] == eng[i]:
                    val += 1
                else:
                    mism.append({"vector": s["vector"], "native": nat[i][:300], "engine": eng[i][:300]})
            tot["validated"] += val
            tot["mismatch"] += len(mism)
            rep["traces_validated"] = val
            if mism:
                rep["engine_native_mismatch"] = mism[:5]
                inconclusive.append("%s: ENGINE-MISMATCH on %d sampled vectors" % (ob["id"], len(mism)))
            for j, s in enumerate(smp[:3]):
                samples_out.append({"obligation": ob["id"], "bound": used, "path_end": s["end"], "input_vector": s["vector"],
                                    "input_bytes": s.get("text", ""), "tags": s.get("tags") or [],
                                    "native_observation": (nat[len(todo) + j] or "")[:400]})
            incomplete = res["incomplete"]
            if incomplete and res.get("incomplete_reason", "").startswith("paths cut") and ob.get("allow_cut"):
                # cut paths whose reason is declared outside the bound of this obligation
                bad = [k for k in cut if not any(a in k for a in ob["allow_cut"])]
                if not bad:
                    incomplete = False
                    rep["paths_cut_outside_bound"] = sum(cut.values())
            if incomplete:
                inconclusive.append("%s: exploration incomplete (%s)" % (ob["id"], res.get("incomplete_reason", "")))
            rep["violations_new"] = confirmed_here
            rep["verdict"] = ("violated" if confirmed_here else
                              ("holds(bound)" if not incomplete and not missing_cover else "inconclusive"))
            obl_reports.append(rep)
    finally:
        shutil.rmtree(tmp, ignore_errors=True)

    for idn, k in sorted(known_hit.items()):
        print("KNOWN-FINDING: property=%s %s [%s]" % (pid, k["description"], idn))
    for line in inconclusive:
        print("INCONCLUSIVE: property=%s %s" % (pid, line))
    for u in unconfirmed:
        print("UNCONFIRMED: property=%s %s input=%s native=%s" % (pid, u["identity"], u["text"], u["native_observation"]))
    for idn, v, path in violations:
        print("VIOLATION property=%s replay=%s  (%s input=%s)" % (pid, path, idn, v.get("text", "")))

    wall = time.time() - t_start
    ev = {
        "property_id": pid, "tier": tier, "seed": seed, "level": "model_checking",
        "coverage": {
            "states": max(tot["paths"], 0), "transitions": tot["forks"] + tot["enum"],
            "traces_validated_against_impl": tot["validated"],
            "samples": samples_out or [{"note": "no path completed"}],
            "explanation": "states = symbolic paths explored to completion by symx (each stands for the class of all inputs satisfying its path condition); transitions = branch decisions (solver-decided forks + enumerated symChoice forks); traces_validated = sampled path witnesses replayed natively (go test -overlay) whose observations equal the engine's",
            "exhaustive": all((r.get("verdict", "").startswith("holds") or r.get("verdict") == "violated") for r in obl_reports) and not inconclusive,
            "obligations": len(obl_reports),
            "discharged": sum(1 for r in obl_reports if r.get("verdict", "").startswith("holds")),
            "obligation_reports": obl_reports,
            "functions_encoded": dict(sorted(funcs.items())),
            "stdlib_interpreted": sorted(stdf.keys()),
            "models_used": sorted(models.keys()),
            "forks_solver": tot["forks"], "forks_enumerated": tot["enum"],
            "queries": tot["queries"], "solver_s": round(tot["solver_s"], 2),
            "engine_native_mismatches": tot["mismatch"],
            "known_findings_hit": sorted(known_hit.keys()),
            "unconfirmed": unconfirmed,
            "inconclusive": inconclusive,
            "harness_dropped": [{"file": f, "error": e} for f, e in sorted(dropped_all.items())],
            "outside_bounds": spec.get("outside_bounds", []),
            "trusted_base": spec.get("trusted_base", []) + ["symx executor", "z3 4.8.12", "go/ssa (x/tools v0.29.0)", "models listed in models_used"],
        },
        "assumptions": spec.get("assumptions", []),
        "wall_s": round(wall, 2),
        "violations": len(violations),
    }
    if ev["coverage"]["states"] < 1:
        ev["coverage"]["states"] = 1
    if ev["coverage"]["transitions"] < 1:
        ev["coverage"]["transitions"] = 1
    if not os.environ.get("VERIF_ONLY"):
        json.dump(ev, open(os.path.join(VERIF, "evidence", pid + ".json"), "w"), indent=1)
    print("SUMMARY property=%s tier=%s obligations=%d paths=%d queries=%d solver_s=%.1f validated=%d known=%d new_violations=%d inconclusive=%d wall=%.1fs" %
          (pid, tier, len(obl_reports), tot["paths"], tot["queries"], tot["solver_s"], tot["validated"], len(known_hit), len(violations), len(inconclusive), wall))
    return 1 if violations else 0


def replay(path):
    r = json.load(open(path))
    v = {"kind": r["kind"], "assert_id": r["assert_id"]}
    if r["kind"] in ("race", "ownership") and r.get("native_race_entry"):
        obs, log, msgs = native_run(r["native_race_entry"], r.get("params") or {}, [[0], [1]], set(), timeout_s=120, race=True)
        text = (log or "") + " ".join(o or "" for o in obs)
        hit = "DATA RACE" in text or "FAIL:" in text or "fatal error" in text
        print("native stress run under the race detector:", "race / failure reported" if hit else "clean")
        if hit:
            print("VIOLATION property=%s replay=%s" % (r["property"], path))
            return 1
        print("not reproduced")
        return 0
    obs, log, msgs = native_run(r["entry"], r.get("params") or {}, [r["vector"]], set(), timeout_s=40, repeat=r.get("native_repeat", 1))
    print("native observation:", obs[0])
    if msgs:
        print("panic:", msgs.get(0))
    if confirms(v, obs[0]):
        print("VIOLATION property=%s replay=%s" % (r["property"], path))
        return 1
    print("not reproduced")
    return 0


def main():
    args = sys.argv[1:]
    build_engine()
    if args and args[0] == "--replay":
        if len(args) < 2 or not os.path.exists(args[1]):
            print("usage: check.py --replay /verif/replays/<file>.json (written next to every VIOLATION line)")
            sys.exit(2)
        sys.exit(replay(args[1]))
    pid = args[0]
    tier = os.environ.get("VERIF_TIER", "quick")
    if "--tier" in args:
        tier = args[args.index("--tier") + 1]
    seed = int(os.environ.get("VERIF_SEED", "0") or 0)
    sys.exit(check_property(pid, tier, seed))


if __name__ == "__main__":
    main()
